//! The public-field structure of `OpeningHoursExpression` as JSON (DESIGN.md appendix C):
//! no `null` (TLC's Json module rejects it), optionals are -1 or empty arrays.

use chrono::{Datelike, NaiveDate, Weekday};
use opening_hours_syntax::rules::day::{
    Date, DateOffset, DaySelector, HolidayKind, MonthdayRange, WeekDayOffset, WeekDayRange, WeekRange, YearRange,
};
use opening_hours_syntax::rules::time::{Time, TimeEvent, TimeSelector, TimeSpan};
use opening_hours_syntax::rules::{OpeningHoursExpression, RuleOperator, RuleSequence};
use serde_json::{json, Value};

const SAT: i64 = 1_000_000_000;

fn sat(x: i64) -> i64 {
    x.clamp(-SAT, SAT)
}

pub fn wd(w: Weekday) -> u32 {
    w.num_days_from_monday()
}

/// Days since 1970-01-01.
pub fn daynum(d: NaiveDate) -> i64 {
    i64::from(d.num_days_from_ce()) - 719_163
}

pub fn date_of_daynum(n: i64) -> NaiveDate {
    NaiveDate::from_num_days_from_ce_opt((n + 719_163) as i32).expect("day number in chrono's range")
}

fn year_range(r: &YearRange) -> Value {
    json!({"a": r.range.start().0, "b": r.range.end().0, "step": r.step})
}

fn week_range(r: &WeekRange) -> Value {
    json!({"a": r.range.start().0, "b": r.range.end().0, "step": r.step})
}

fn date(d: &Date) -> Value {
    match d {
        Date::Fixed { year, month, day } => {
            json!({"t": "fixed", "year": year.map(i64::from).unwrap_or(-1), "month": *month as u8, "day": day})
        }
        Date::Easter { year } => json!({"t": "easter", "year": year.map(i64::from).unwrap_or(-1)}),
    }
}

fn bound(d: &Date, o: &DateOffset) -> Value {
    let (wsign, wday) = match o.wday_offset {
        WeekDayOffset::None => (0, 0),
        WeekDayOffset::Next(w) => (1, wd(w)),
        WeekDayOffset::Prev(w) => (-1, wd(w)),
    };

    json!({"date": date(d), "wsign": wsign, "wday": wday, "days": sat(o.day_offset)})
}

fn monthday(r: &MonthdayRange) -> Value {
    match r {
        MonthdayRange::Month { range, year } => json!({
            "t": "month", "a": *range.start() as u8, "b": *range.end() as u8,
            "year": year.map(i64::from).unwrap_or(-1),
        }),
        MonthdayRange::Date { start, end } => {
            json!({"t": "date", "s": bound(&start.0, &start.1), "e": bound(&end.0, &end.1)})
        }
    }
}

fn weekday(r: &WeekDayRange) -> Value {
    match r {
        WeekDayRange::Fixed { range, offset, nth_from_start, nth_from_end } => json!({
            "t": "fixed", "a": wd(*range.start()), "b": wd(*range.end()), "days": sat(*offset),
            "nth": nth_from_start, "nthr": nth_from_end,
        }),
        WeekDayRange::Holiday { kind, offset } => json!({
            "t": "holiday",
            "kind": match kind { HolidayKind::Public => "public", HolidayKind::School => "school" },
            "days": sat(*offset),
        }),
    }
}

fn time(t: &Time) -> Value {
    match t {
        Time::Fixed(t) => json!({"t": "fixed", "m": t.mins_from_midnight()}),
        Time::Variable(v) => json!({
            "t": "var",
            "ev": match v.event {
                TimeEvent::Dawn => "dawn",
                TimeEvent::Sunrise => "sunrise",
                TimeEvent::Sunset => "sunset",
                TimeEvent::Dusk => "dusk",
            },
            "off": v.offset,
        }),
    }
}

fn span(s: &TimeSpan) -> Value {
    json!({
        "s": time(&s.range.start), "e": time(&s.range.end), "open_end": s.open_end,
        "repeats": s.repeats.map(|d| d.num_minutes()).unwrap_or(-1),
    })
}

pub fn day_selector(ds: &DaySelector) -> (Value, Value, Value, Value) {
    (
        Value::Array(ds.year.iter().map(year_range).collect()),
        Value::Array(ds.monthday.iter().map(monthday).collect()),
        Value::Array(ds.week.iter().map(week_range).collect()),
        Value::Array(ds.weekday.iter().map(weekday).collect()),
    )
}

pub fn time_selector(ts: &TimeSelector) -> Value {
    Value::Array(ts.time.iter().map(span).collect())
}

pub fn rule(r: &RuleSequence) -> Value {
    let (year, monthday, week, weekday) = day_selector(&r.day_selector);

    json!({
        "op": match r.operator {
            RuleOperator::Normal => "normal",
            RuleOperator::Additional => "additional",
            RuleOperator::Fallback => "fallback",
        },
        "kind": r.kind.as_str(),
        "comments": r.comments.iter().map(|c| c.to_string()).collect::<Vec<_>>(),
        "year": year, "monthday": monthday, "week": week, "weekday": weekday,
        "time": time_selector(&r.time_selector),
    })
}

pub fn expr(e: &OpeningHoursExpression) -> Value {
    json!({"rules": e.rules.iter().map(rule).collect::<Vec<_>>()})
}
