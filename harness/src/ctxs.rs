//! Evaluation contexts used by the harness: explicit holiday calendars and a synthetic locale
//! whose sun-event times depend on the date (same function as TimeSel.tla's SyntheticEvent).

use std::sync::Arc;

use chrono::{NaiveDate, NaiveDateTime, NaiveTime};
use compact_calendar::CompactCalendar;
use opening_hours::localization::Localize;
use opening_hours::{Context, ContextHolidays};
use opening_hours_syntax::rules::time::TimeEvent;
use serde_json::{json, Value};

use crate::astjson::{date_of_daynum, daynum};
use crate::rng::Rng;

#[derive(Clone, Debug, PartialEq, Eq, Hash)]
pub struct SynthLocale {
    pub synthetic: bool,
}

impl Localize for SynthLocale {
    type DateTime = NaiveDateTime;

    fn naive(&self, dt: NaiveDateTime) -> NaiveDateTime {
        dt
    }

    fn datetime(&self, naive: NaiveDateTime) -> NaiveDateTime {
        naive
    }

    fn event_time(&self, date: NaiveDate, event: TimeEvent) -> NaiveTime {
        let mins = if self.synthetic {
            let n = daynum(date);
            let dawn = 240 + n.rem_euclid(97);
            let sunset = 1020 + n.rem_euclid(113);
            match event {
                TimeEvent::Dawn => dawn,
                TimeEvent::Sunrise => dawn + 20 + n.rem_euclid(41),
                TimeEvent::Sunset => sunset,
                TimeEvent::Dusk => sunset + 15 + n.rem_euclid(37),
            }
        } else {
            match event {
                TimeEvent::Dawn => 360,
                TimeEvent::Sunrise => 420,
                TimeEvent::Sunset => 1140,
                TimeEvent::Dusk => 1200,
            }
        };

        NaiveTime::from_hms_opt((mins / 60) as u32, (mins % 60) as u32, 0).unwrap()
    }
}

#[derive(Clone)]
pub struct Ctx {
    pub ph: Vec<i64>,
    pub sh: Vec<i64>,
    pub synthetic: bool,
}

impl Ctx {
    pub fn plain() -> Self {
        Ctx { ph: vec![], sh: vec![], synthetic: false }
    }

    pub fn json(&self) -> Value {
        json!({"ph": self.ph, "sh": self.sh, "events": if self.synthetic { "synthetic" } else { "default" }})
    }

    pub fn context(&self) -> Context<SynthLocale> {
        let cal = |days: &[i64]| -> Arc<CompactCalendar> {
            Arc::new(days.iter().map(|n| date_of_daynum(*n)).collect())
        };

        Context::default()
            .with_holidays(ContextHolidays::new(cal(&self.ph), cal(&self.sh)))
            .with_locale(SynthLocale { synthetic: self.synthetic })
    }

    /// A random small context: a few public holidays (fixed days of several years, consecutive
    /// days across a year end, both bounds of the supported range) and school holiday blocks.
    pub fn random(rng: &mut Rng) -> Self {
        let mut ph = Vec::new();
        let mut sh = Vec::new();
        let d = |y, m, dd| daynum(NaiveDate::from_ymd_opt(y, m, dd).unwrap());

        if rng.chance(3, 4) {
            for y in 2018..=2031 {
                if rng.chance(3, 4) {
                    ph.push(d(y, 1, 1));
                }
                if rng.chance(1, 2) {
                    ph.push(d(y, 12, 25));
                    ph.push(d(y, 12, 26));
                }
                if rng.chance(1, 3) {
                    ph.push(d(y, 12, 31));
                }
                if rng.chance(1, 3) {
                    ph.push(d(y, rng.range(1, 12) as u32, rng.range(1, 28) as u32));
                }
            }
            if rng.chance(1, 4) {
                ph.push(d(9999, 12, 31));
                ph.push(d(1900, 1, 1));
            }
        }

        if rng.chance(1, 2) {
            for y in 2019..=2027 {
                if rng.chance(1, 2) {
                    let start = d(y, rng.range(1, 12) as u32, rng.range(1, 28) as u32);
                    for k in 0..rng.range(1, 16) {
                        sh.push(start + k);
                    }
                }
            }
            if rng.chance(1, 3) {
                for k in 0..10 {
                    sh.push(d(2020, 12, 27) + k); // across a year end
                }
            }
        }

        ph.sort();
        ph.dedup();
        sh.sort();
        sh.dedup();
        Ctx { ph, sh, synthetic: rng.chance(1, 2) }
    }
}
