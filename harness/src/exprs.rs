//! Expression inputs: the repository's own corpus (sample file + string literals of its tests)
//! and a seeded structured random generator over the whole grammar.

use crate::rng::Rng;

const SAMPLE: &str = "/repo/opening-hours/src/tests/data/sample.txt";
const TEST_DIRS: [&str; 2] = ["/repo/opening-hours/src/tests", "/repo/opening-hours-syntax/src/tests"];

/// Lines of the sample file and every string literal of the test sources that parses.
pub fn corpus() -> Vec<String> {
    let mut out: Vec<String> = Vec::new();

    if let Ok(data) = std::fs::read_to_string(SAMPLE) {
        out.extend(
            data.lines()
                .map(str::trim)
                .filter(|l| !l.is_empty() && !l.starts_with('#'))
                .map(String::from),
        );
    }

    for dir in TEST_DIRS {
        let Ok(rd) = std::fs::read_dir(dir) else { continue };
        let mut files: Vec<_> = rd.filter_map(|e| e.ok()).map(|e| e.path()).collect();
        files.sort();

        for path in files {
            if path.extension().map(|e| e != "rs").unwrap_or(true) {
                continue;
            }

            let Ok(src) = std::fs::read_to_string(&path) else { continue };
            out.extend(string_literals(&src));
        }
    }

    out.retain(|s| s.len() < 400 && crate::util::guarded(|| opening_hours_syntax::parse(s).is_ok()).unwrap_or(false));
    out.sort();
    out.dedup();
    out
}

/// Every `YYYY-MM-DD` written in the repository's test sources (the days its own assertions are about), as day numbers.
pub fn test_dates() -> Vec<i64> {
    let mut out: Vec<i64> = Vec::new();

    for dir in TEST_DIRS {
        let Ok(rd) = std::fs::read_dir(dir) else { continue };
        for path in rd.filter_map(|e| e.ok()).map(|e| e.path()) {
            if path.extension().map(|e| e != "rs").unwrap_or(true) {
                continue;
            }
            let Ok(src) = std::fs::read_to_string(&path) else { continue };
            let b = src.as_bytes();
            for i in 0..b.len().saturating_sub(9) {
                let w = &b[i..i + 10];
                let digits = |r: std::ops::Range<usize>| w[r].iter().all(u8::is_ascii_digit);
                if digits(0..4) && w[4] == b'-' && digits(5..7) && w[7] == b'-' && digits(8..10) && (i == 0 || !b[i - 1].is_ascii_digit()) {
                    let t = std::str::from_utf8(w).unwrap();
                    if let Ok(d) = chrono::NaiveDate::parse_from_str(t, "%Y-%m-%d") {
                        out.push(crate::astjson::daynum(d));
                    }
                }
            }
        }
    }

    out.sort();
    out.dedup();
    out
}

/// Plain and raw string literals of a Rust source (good enough for the test files).
fn string_literals(src: &str) -> Vec<String> {
    let b: Vec<char> = src.chars().collect();
    let mut out = Vec::new();
    let mut i = 0;

    while i < b.len() {
        if b[i] == 'r' && i + 2 < b.len() && b[i + 1] == '#' && b[i + 2] == '"' {
            let mut j = i + 3;
            let mut s = String::new();
            while j + 1 < b.len() && !(b[j] == '"' && b[j + 1] == '#') {
                s.push(b[j]);
                j += 1;
            }
            out.push(s);
            i = j + 2;
        } else if b[i] == '"' {
            let mut j = i + 1;
            let mut s = String::new();
            while j < b.len() && b[j] != '"' {
                if b[j] == '\\' && j + 1 < b.len() {
                    j += 1;
                    s.push(match b[j] { 'n' => '\n', 't' => '\t', c => c });
                } else {
                    s.push(b[j]);
                }
                j += 1;
            }
            out.push(s);
            i = j + 1;
        } else {
            i += 1;
        }
    }

    out
}

const WD: [&str; 7] = ["Mo", "Tu", "We", "Th", "Fr", "Sa", "Su"];
const MONTHS: [&str; 12] = ["Jan", "Feb", "Mar", "Apr", "May", "Jun", "Jul", "Aug", "Sep", "Oct", "Nov", "Dec"];

/// Generator options: which corners may be produced.
#[derive(Clone, Copy)]
pub struct GenOpts {
    pub corners: bool,   // constructs whose meaning is left open (open ends, offsets on both bounds ...)
    pub events: bool,    // sun events
    pub holidays: bool,  // PH / SH
    pub canonical_bias: bool, // mostly plain ranges (for normalisation)
}

impl Default for GenOpts {
    fn default() -> Self {
        GenOpts { corners: true, events: true, holidays: true, canonical_bias: false }
    }
}

pub struct Gen<'a> {
    pub rng: &'a mut Rng,
    pub opts: GenOpts,
}

impl Gen<'_> {
    fn year(&mut self) -> i64 {
        match self.rng.below(10) {
            0 => 1900,
            1 => 9999,
            2 => self.rng.range(1900, 9999),
            _ => self.rng.range(2018, 2030),
        }
    }

    fn year_range(&mut self) -> String {
        let a = self.year();
        match self.rng.below(8) {
            0 | 1 | 2 => format!("{a}"),
            3 | 4 => {
                let b = (a + self.rng.range(1, 8)).min(9999);
                format!("{a}-{b}")
            }
            5 => {
                let b = (a + self.rng.range(2, 12)).min(9999);
                format!("{a}-{b}/{}", self.rng.range(2, 4))
            }
            6 => format!("{a}+"),
            _ => {
                if self.opts.canonical_bias || a <= 1901 {
                    format!("{a}")
                } else {
                    let b = (a - self.rng.range(1, 5)).max(1900);
                    let step = if self.opts.corners && self.rng.chance(1, 4) { "/2" } else { "" };
                    format!("{a}-{b}{step}") // wrapping
                }
            }
        }
    }

    fn month(&mut self) -> &'static str {
        MONTHS[self.rng.below(12) as usize]
    }

    fn daynum(&mut self, month: &str) -> i64 {
        let max = match month {
            "Feb" => 29,
            "Apr" | "Jun" | "Sep" | "Nov" => 30,
            _ => 31,
        };
        match self.rng.below(8) {
            0 => 1,
            1 => max,
            2 if self.opts.corners => *self.rng.pick(&[29, 30, 31]), // possibly non-existent
            3 => 28,
            _ => self.rng.range(1, max),
        }
    }

    fn day_offset(&mut self) -> String {
        if self.rng.chance(1, 3) {
            let n = if self.rng.chance(1, 10) { self.rng.range(8, 45) } else { self.rng.range(1, 7) };
            let sign = if self.rng.chance(1, 2) { "+" } else { "-" };
            format!(" {sign}{n} day{}", if n > 1 { "s" } else { "" })
        } else {
            String::new()
        }
    }

    fn date_offset(&mut self) -> String {
        match self.rng.below(10) {
            0 => format!("{}{}", if self.rng.chance(1, 2) { "+" } else { "-" }, WD[self.rng.below(7) as usize]),
            1 | 2 => self.day_offset(),
            3 if self.opts.corners => format!(
                "{}{}{}",
                if self.rng.chance(1, 2) { "+" } else { "-" },
                WD[self.rng.below(7) as usize],
                self.day_offset()
            ),
            _ => String::new(),
        }
    }

    fn date(&mut self, with_year: bool) -> String {
        let y = if with_year { format!("{} ", self.year()) } else { String::new() };
        if self.rng.chance(1, 7) {
            format!("{y}easter")
        } else {
            let m = self.month();
            format!("{y}{m} {}", self.daynum(m))
        }
    }

    fn monthday_range(&mut self) -> String {
        if self.opts.canonical_bias && self.rng.chance(4, 5) {
            let a = self.month();
            return if self.rng.chance(1, 2) { a.to_string() } else { format!("{a}-{}", self.month()) };
        }
        match self.rng.below(12) {
            0 | 1 => self.month().to_string(),
            2 | 3 => format!("{}-{}", self.month(), self.month()),
            4 => format!("{}{}", self.year(), self.month()),
            5 => {
                let a = self.rng.below(11) as usize;
                let b = self.rng.range(a as i64, 11) as usize;
                format!("{}{}-{}", self.year(), MONTHS[a], MONTHS[b])
            }
            6 | 7 => {
                // single date, maybe with offset / plus
                let y = self.rng.chance(1, 4);
                let d = self.date(y);
                let off = self.date_offset();
                let plus = if self.rng.chance(1, 6) { "+" } else { "" };
                format!("{d}{off}{plus}")
            }
            8 | 9 => {
                // date range, years on none / start / both
                let mode = self.rng.below(6);
                let s = self.date(mode >= 3);
                let e = if mode == 5 {
                    self.date(true)
                } else if mode == 4 && self.opts.corners && self.rng.chance(1, 5) {
                    self.date(true)
                } else {
                    self.date(false)
                };
                let so = self.date_offset();
                let eo = self.date_offset();
                format!("{s}{so}-{e}{eo}")
            }
            10 => {
                // day-number end bound: May 15-31, Dec 28-05
                let m = self.month();
                let a = self.daynum(m);
                let b = self.rng.range(1, 31);
                format!("{m} {a}-{b:02}")
            }
            _ => {
                let y = self.year();
                let m = self.month();
                let d = self.daynum(m);
                format!("{y} {m} {d}+")
            }
        }
    }

    fn week_range(&mut self) -> String {
        let a = match self.rng.below(6) {
            0 => 1,
            1 => 53,
            2 => 52,
            _ => self.rng.range(1, 53),
        };
        match self.rng.below(6) {
            0 | 1 => format!("{a:02}"),
            2 | 3 => format!("{a:02}-{:02}", self.rng.range(a, 53)),
            4 => format!("{a:02}-{:02}/{}", self.rng.range(a, 53), self.rng.range(2, 5)),
            _ => {
                if self.opts.canonical_bias {
                    format!("{a:02}")
                } else {
                    let b = self.rng.range(1, a.max(2) - 1).max(1);
                    let step = if self.opts.corners && self.rng.chance(1, 4) { "/2" } else { "" };
                    format!("{a:02}-{b:02}{step}")
                }
            }
        }
    }

    fn weekday_range(&mut self) -> String {
        let a = self.rng.below(7) as usize;
        if self.opts.canonical_bias && self.rng.chance(5, 6) {
            return if self.rng.chance(1, 2) { WD[a].into() } else { format!("{}-{}", WD[a], WD[self.rng.below(7) as usize]) };
        }
        match self.rng.below(10) {
            0..=2 => WD[a].to_string(),
            3..=5 => format!("{}-{}", WD[a], WD[self.rng.below(7) as usize]),
            6 | 7 => {
                let nth = match self.rng.below(6) {
                    0 => "1".to_string(),
                    1 => "-1".to_string(),
                    2 => format!("{}", self.rng.range(1, 5)),
                    3 => format!("-{}", self.rng.range(1, 5)),
                    4 => "1,3".to_string(),
                    _ => "2-4".to_string(),
                };
                format!("{}[{nth}]{}", WD[a], self.day_offset())
            }
            _ => {
                if self.opts.holidays {
                    match self.rng.below(4) {
                        0 => "SH".to_string(),
                        1 => format!("PH{}", self.day_offset()),
                        _ => "PH".to_string(),
                    }
                } else {
                    WD[a].to_string()
                }
            }
        }
    }

    fn hm(&mut self, max_h: i64) -> String {
        let h = self.rng.range(0, max_h);
        let m = if h == max_h && (max_h == 24 || max_h == 48) { 0 } else { *self.rng.pick(&[0, 0, 0, 15, 30, 45, 59, 1]) };
        format!("{h:02}:{m:02}")
    }

    fn time(&mut self, extended: bool) -> String {
        if self.opts.events && self.rng.chance(1, 8) {
            let ev = *self.rng.pick(&["dawn", "sunrise", "sunset", "dusk"]);
            if self.rng.chance(1, 2) {
                ev.to_string()
            } else {
                let sign = if self.rng.chance(1, 2) { "+" } else { "-" };
                let off = if self.opts.corners && self.rng.chance(1, 10) { self.hm(23) } else { format!("0{}:{:02}", self.rng.range(0, 2), *self.rng.pick(&[0, 15, 30])) };
                format!("({ev}{sign}{off})")
            }
        } else if extended && self.rng.chance(1, 6) {
            self.hm(48)
        } else {
            self.hm(24)
        }
    }

    fn span(&mut self) -> String {
        if self.opts.canonical_bias && self.rng.chance(5, 6) {
            let a = self.rng.range(0, 23);
            let b = self.rng.range(a + 1, 24);
            return format!("{a:02}:00-{b:02}:{}", if b == 24 { "00" } else { *self.rng.pick(&["00", "30"]) });
        }
        match self.rng.below(12) {
            0 if self.opts.corners => format!("{}+", self.time(false)),
            1 if self.opts.corners => format!("{}-{}+", self.time(false), self.time(true)),
            2 => "00:00-24:00".to_string(),
            _ => format!("{}-{}", self.time(false), self.time(true)),
        }
    }

    fn list(&mut self, f: fn(&mut Self) -> String, max: u64) -> String {
        let n = 1 + if self.rng.chance(1, 3) { self.rng.below(max) } else { 0 };
        (0..n).map(|_| f(self)).collect::<Vec<_>>().join(",")
    }

    fn comment(&mut self) -> String {
        let c = *self.rng.pick(&["a", "b", "c", "on appointment", "x y", "Z"]);
        format!("\"{c}\"")
    }

    pub fn rule(&mut self) -> String {
        let mut parts: Vec<String> = Vec::new();

        if self.rng.chance(1, 25) {
            parts.push("24/7".into());
        } else {
            let mut wide = String::new();
            if self.rng.chance(1, 5) {
                wide.push_str(&self.list(Self::year_range, 2));
            }
            if self.rng.chance(1, 3) {
                if !wide.is_empty() {
                    wide.push(' ');
                }
                wide.push_str(&self.list(Self::monthday_range, 2));
            }
            if self.rng.chance(1, 7) {
                if !wide.is_empty() {
                    wide.push(' ');
                }
                wide.push_str("week ");
                wide.push_str(&self.list(Self::week_range, 2));
            }
            if !wide.is_empty() {
                if self.rng.chance(1, 6) {
                    wide.push(':');
                }
                parts.push(wide);
            }
            if self.rng.chance(3, 5) {
                parts.push(self.list(Self::weekday_range, 3));
            }
            if self.rng.chance(3, 4) || parts.is_empty() {
                parts.push(self.list(Self::span, 3));
            }
        }

        // a comment written before the selectors (`"lead":Mo 10:00-12:00`): it joins the rule's comments
        if self.rng.chance(1, 14) && !parts.is_empty() && !parts[0].starts_with("24/7") && !parts[0].chars().next().is_some_and(|c| c.is_ascii_digit()) {
            let lead = *self.rng.pick(&["a", "call us", "m", "zz", "b"]);
            parts[0] = format!("\"{lead}\":{}", parts[0]);
        }

        match self.rng.below(8) {
            0 | 1 => parts.push(self.rng.pick(&["off", "closed"]).to_string()),
            2 => parts.push("unknown".into()),
            3 => parts.push("open".into()),
            _ => {}
        }

        if self.rng.chance(1, 5) {
            parts.push(self.comment());
        }

        parts.join(" ")
    }

    pub fn expression(&mut self) -> String {
        let n = match self.rng.below(10) {
            0..=3 => 1,
            4..=6 => 2,
            7 | 8 => 3,
            _ => 4 + self.rng.below(3),
        };
        let mut s = self.rule();

        for _ in 1..n {
            let sep = match self.rng.below(10) {
                0..=5 => " ; ",
                6..=8 => ", ",
                _ => " || ",
            };
            s.push_str(sep);
            s.push_str(&self.rule());
        }

        s
    }
}

/// An expression in which (almost) every rule carries its own distinguishable comment, some rules two
/// (a leading `"..":` comment and a modifier comment).
pub fn commented_expression(rng: &mut Rng) -> String {
    let opts = GenOpts { corners: false, ..GenOpts::default() };
    let mut g = Gen { rng, opts };
    let nrules = 1 + g.rng.below(4);
    let mut src = String::new();

    for i in 0..nrules {
        if i > 0 {
            src.push_str(match g.rng.below(10) { 0..=4 => " ; ", 5..=8 => ", ", _ => " || " });
        }
        let rule = g.rule();
        // strip any comment the generator added, then add the rule's own
        let body: String = {
            let r = rule.as_str();
            let r = if r.starts_with('"') { r.splitn(3, '"').nth(2).unwrap_or("").trim_start_matches(':') } else { r };
            r.split('"').next().unwrap().trim_end().to_string()
        };
        let lead_ok = !body.is_empty() && !body.starts_with("24/7") && !body.chars().next().is_some_and(|c| c.is_ascii_digit());
        if lead_ok && g.rng.chance(1, 4) {
            let lead = *g.rng.pick(&["a", "r0", "zz", "r9", "lead"]);
            src.push_str(&format!("\"{lead}\":"));
        }
        src.push_str(&body);
        if g.rng.chance(4, 5) {
            if body.is_empty() {
                src.push_str(&format!("\"r{i}\""));
            } else {
                src.push_str(&format!(" \"r{i}\""));
            }
        }
    }

    src
}
