fn main() {
    println!("ohv");
}
