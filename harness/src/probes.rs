//! Choice of probe dates for an expression (no verdict logic here: only where to look).

use std::collections::BTreeSet;

use chrono::{Datelike, NaiveDate, Weekday};
use opening_hours_syntax::rules::day::{Date, MonthdayRange, WeekDayRange};
use opening_hours_syntax::rules::OpeningHoursExpression;

use crate::astjson::daynum;
use crate::ctxs::Ctx;
use crate::rng::Rng;

pub const DAY_MIN: i64 = -25_567; // 1900-01-01
pub const DAY_MAX: i64 = 2_932_896; // 9999-12-31

fn ymd(y: i32, m: u32, d: u32) -> Option<i64> {
    NaiveDate::from_ymd_opt(y, m, d).map(daynum)
}

fn easter(year: i32) -> Option<i64> {
    // anonymous Gregorian algorithm (probe selection only)
    let a = year % 19;
    let b = year / 100;
    let c = year % 100;
    let d = b / 4;
    let e = b % 4;
    let f = (b + 8) / 25;
    let g = (b - f + 1) / 3;
    let h = (19 * a + b - d - g + 15) % 30;
    let i = c / 4;
    let k = c % 4;
    let l = (32 + 2 * e + 2 * i - h - k) % 7;
    let m = (a + 11 * h + 22 * l) / 451;
    let n = (h + l - 7 * m + 114) / 31;
    let o = (h + l - 7 * m + 114) % 31;
    ymd(year, n as u32, (o + 1) as u32)
}

/// Dates at which something may change for this expression: every bound of every selector
/// (+-1 day) in the years it mentions and in a few standard years.
pub fn critical(expr: &OpeningHoursExpression, ctx: &Ctx) -> Vec<i64> {
    let mut years: BTreeSet<i32> = [2020, 2021, 2024].into_iter().collect();
    let mut out: BTreeSet<i64> = BTreeSet::new();
    let mut months: BTreeSet<u32> = BTreeSet::new();
    let mut dates: BTreeSet<(u32, u32, i64)> = BTreeSet::new();
    let mut weeks: BTreeSet<u32> = BTreeSet::new();
    let mut use_easter = false;
    let mut use_nth = false;

    for r in &expr.rules {
        let ds = &r.day_selector;

        for y in &ds.year {
            for v in [y.range.start().0, y.range.end().0] {
                years.insert(i32::from(v));
                years.insert(i32::from(v) + i32::from(y.step));
            }
        }

        for md in &ds.monthday {
            match md {
                MonthdayRange::Month { range, year } => {
                    months.insert(*range.start() as u32);
                    months.insert(*range.end() as u32);
                    if let Some(y) = year {
                        years.insert(i32::from(*y));
                    }
                }
                MonthdayRange::Date { start, end } => {
                    for (d, off) in [start, end] {
                        match d {
                            Date::Fixed { year, month, day } => {
                                dates.insert((*month as u32, u32::from(*day), off.day_offset.clamp(-500, 500)));
                                if let Some(y) = year {
                                    years.insert(i32::from(*y));
                                }
                            }
                            Date::Easter { year } => {
                                use_easter = true;
                                dates.insert((0, 0, off.day_offset.clamp(-500, 500)));
                                if let Some(y) = year {
                                    years.insert(i32::from(*y));
                                }
                            }
                        }
                    }
                }
            }
        }

        for w in &ds.week {
            weeks.insert(u32::from(w.range.start().0));
            weeks.insert(u32::from(w.range.end().0));
        }

        for wd in &ds.weekday {
            if let WeekDayRange::Fixed { nth_from_start, nth_from_end, .. } = wd {
                if nth_from_start.contains(&false) || nth_from_end.contains(&false) {
                    use_nth = true;
                }
            }
        }
    }

    // the exceptions of the leap-year rule are boundary values for anything written around the end
    // of February: a common century year (2100), the leap years around it and a leap century (2400)
    if dates.iter().any(|(m, d, _)| *m == 2 && *d >= 28) || months.contains(&2) {
        years.extend([2096, 2098, 2100, 2104, 2400]);
    }

    // a date attached to a year is also looked at from far away: the day-jump hints only scan a window of years around the
    // evaluated day (R21: eleven years), so a standing point twelve to twenty years before an anchored year is a boundary value
    let mut far: Vec<i64> = Vec::new();
    for r in &expr.rules {
        for md in &r.day_selector.monthday {
            if let MonthdayRange::Date { start, end } = md {
                for (d, _) in [start, end] {
                    let y = match d {
                        Date::Fixed { year, .. } | Date::Easter { year } => *year,
                    };
                    if let Some(y) = y {
                        for back in [12, 20] {
                            far.extend(ymd(i32::from(y) - back, 6, 15));
                        }
                    }
                }
            }
        }
    }

    let years: Vec<i32> = years.into_iter().flat_map(|y| [y - 1, y, y + 1]).filter(|y| (1899..=10_000).contains(y)).collect();

    for &y in &years {
        for d in [ymd(y, 1, 1), ymd(y, 12, 31), ymd(y, 2, 28), ymd(y, 3, 1), ymd(y, 2, 29)].into_iter().flatten() {
            out.insert(d);
        }

        for &m in &months {
            if let Some(first) = ymd(y, m, 1) {
                out.extend([first - 1, first]);
            }
            let next = if m == 12 { ymd(y + 1, 1, 1) } else { ymd(y, m + 1, 1) };
            if let Some(n) = next {
                out.extend([n - 1, n]);
            }
        }

        for &(m, d, off) in &dates {
            let base = if m == 0 {
                easter(y)
            } else {
                (0..4).filter_map(|k| ymd(y, m, d.saturating_sub(k).max(1))).next()
            };
            if let Some(b) = base {
                for k in -1..=1 {
                    out.insert(b + k);
                    out.insert(b + off + k);
                }
                // weekday offsets move by up to 6 days
                out.extend([b + off + 6, b + off + 7, b + off - 6, b + off - 7]);
            }
        }

        if use_easter {
            if let Some(e) = easter(y) {
                out.extend([e - 1, e, e + 1]);
            }
        }

        for &w in &weeks {
            if let Some(mon) = NaiveDate::from_isoywd_opt(y, w, Weekday::Mon) {
                let n = daynum(mon);
                out.extend([n - 1, n, n + 6, n + 7]);
            }
        }
        // first / last ISO weeks of the year
        if !weeks.is_empty() {
            for k in -4..=4 {
                if let Some(n) = ymd(y, 1, 1) {
                    out.insert(n + k);
                }
            }
        }

        if use_nth && (2019..=2026).contains(&y) {
            for m in [1u32, 2, 5] {
                if let Some(first) = ymd(y, m, 1) {
                    let len = NaiveDate::from_ymd_opt(y, m, 1).unwrap().with_day(28).unwrap().month();
                    let _ = len;
                    for k in 0..35 {
                        out.insert(first + k);
                    }
                }
            }
        }
    }

    for h in ctx.ph.iter().chain(ctx.sh.iter()).take(60) {
        out.extend([h - 1, *h, h + 1]);
    }

    out.extend(far);
    out.into_iter().filter(|n| (DAY_MIN - 2..=DAY_MAX + 2).contains(n)).collect()
}

/// `k` probe days: corner dates, a sample of the critical dates, random days.
pub fn probe_days(expr: &OpeningHoursExpression, ctx: &Ctx, rng: &mut Rng, k: usize) -> Vec<i64> {
    let crit = critical(expr, ctx);
    let mut out: BTreeSet<i64> = BTreeSet::new();
    let corners = [DAY_MIN, DAY_MIN + 1, DAY_MAX, DAY_MAX - 1, DAY_MIN - 1, DAY_MAX + 1];
    out.insert(*rng.pick(&corners));

    let want_crit = (k * 2) / 3;
    if !crit.is_empty() {
        for _ in 0..want_crit {
            out.insert(*rng.pick(&crit));
        }
    }

    while out.len() < k {
        let n = match rng.below(6) {
            0 => rng.range(DAY_MIN, DAY_MAX),
            1 => rng.range(DAY_MIN, DAY_MIN + 800),
            2 => rng.range(DAY_MAX - 800, DAY_MAX),
            _ => rng.range(17_500, 21_000), // 2017-2027
        };
        out.insert(n);
    }

    // consecutive days expose spills
    let extra: Vec<i64> = out.iter().take(k / 4).map(|n| n + 1).collect();
    out.extend(extra);
    out.into_iter().collect()
}
