//! Small deterministic PRNG (SplitMix64); all randomness of the harness derives from a seed.

#[derive(Clone)]
pub struct Rng(u64);

impl Rng {
    pub fn new(seed: u64) -> Self {
        Rng(seed.wrapping_mul(0x9E37_79B9_7F4A_7C15) ^ 0xD1B5_4A32_D192_ED03)
    }

    pub fn next_u64(&mut self) -> u64 {
        self.0 = self.0.wrapping_add(0x9E37_79B9_7F4A_7C15);
        let mut z = self.0;
        z = (z ^ (z >> 30)).wrapping_mul(0xBF58_476D_1CE4_E5B9);
        z = (z ^ (z >> 27)).wrapping_mul(0x94D0_49BB_1331_11EB);
        z ^ (z >> 31)
    }

    /// Uniform in 0..n (n > 0).
    pub fn below(&mut self, n: u64) -> u64 {
        self.next_u64() % n
    }

    /// Uniform in lo..=hi.
    pub fn range(&mut self, lo: i64, hi: i64) -> i64 {
        debug_assert!(lo <= hi);
        lo + (self.below((hi - lo + 1) as u64) as i64)
    }

    pub fn chance(&mut self, num: u64, den: u64) -> bool {
        self.below(den) < num
    }

    pub fn pick<'a, T>(&mut self, xs: &'a [T]) -> &'a T {
        &xs[self.below(xs.len() as u64) as usize]
    }
}
