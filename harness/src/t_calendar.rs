//! C15: CompactCalendar against CompactCalendar.tla.

use std::io::Read;

use chrono::{Datelike, NaiveDate};
use compact_calendar::CompactCalendar;
use serde_json::{json, Value};

use crate::rng::Rng;
use crate::util::{guarded, read_ndjson, Report};
use crate::Args;

fn date_of(v: &Value) -> NaiveDate {
    NaiveDate::from_ymd_opt(
        v[0].as_i64().unwrap() as i32,
        v[1].as_u64().unwrap() as u32,
        v[2].as_u64().unwrap() as u32,
    )
    .expect("the specification only uses valid dates")
}

fn json_of(d: NaiveDate) -> Value {
    json!([d.year(), d.month(), d.day()])
}

fn opt_json(d: Option<NaiveDate>) -> Value {
    d.map(json_of).unwrap_or_else(|| json!([]))
}

fn dates_of(v: &Value) -> Vec<NaiveDate> {
    v.as_array().unwrap().iter().map(date_of).collect()
}

fn shuffled(rng: &mut Rng, v: &[NaiveDate]) -> Vec<NaiveDate> {
    let mut v = v.to_vec();
    for i in (1..v.len()).rev() {
        v.swap(i, rng.below(i as u64 + 1) as usize);
    }
    v
}

/// Build a calendar by inserting in the given order; check the newness flags on the way.
fn build(order: &[NaiveDate], rep: &mut Report, ctx: &Value) -> CompactCalendar {
    let mut cal = CompactCalendar::default();
    let mut seen = std::collections::BTreeSet::new();

    for d in order {
        let new = cal.insert(*d);
        rep.evaluations += 1;

        if new != seen.insert(*d) {
            rep.mismatch(json!({"op": "insert_newness", "date": json_of(*d), "got": new, "state": ctx}));
        }
    }

    cal
}

fn serialize(cal: &CompactCalendar) -> Vec<u8> {
    let mut buf = Vec::new();
    cal.serialize(&mut buf).expect("writing to a Vec cannot fail");
    buf
}

/// Replay every reachable state of MC_CompactCalendar (one REPLAY line each, with all its
/// outgoing transitions and query answers) on the real type.
pub fn replay(args: &Args) {
    let lines = read_ndjson(&args.pos[2]);
    let mut rng = Rng::new(args.get_u64("seed", 1));
    let mut rep = Report::new();
    let mut recent: Vec<(CompactCalendar, usize)> = Vec::new();
    let mut behaviours = 0u64;

    for line in &lines {
        let set = dates_of(&line["set"]);
        let ctx = line["set"].clone();

        let res = guarded(|| {
            let mut rep = Report::new();
            let mut behaviours = 0u64;
            let asc = build(&set, &mut rep, &ctx);
            let desc_order: Vec<_> = set.iter().rev().copied().collect();
            let desc = build(&desc_order, &mut rep, &ctx);
            let mut with_dups = shuffled(&mut rng, &set);
            with_dups.extend(shuffled(&mut rng, &set));
            let dup = build(&with_dups, &mut rep, &ctx);
            let collected: CompactCalendar = shuffled(&mut rng, &set).into_iter().collect();
            behaviours += 4;

            // equality is set equality, whatever the insertion order
            if !(asc == desc && asc == dup && asc == collected) {
                rep.mismatch(json!({"op": "eq_orders", "state": ctx}));
            }

            // count / iter
            rep.evaluations += 2;

            if u64::from(asc.count()) != line["count"].as_u64().unwrap() {
                rep.mismatch(json!({"op": "count", "state": ctx, "got": asc.count()}));
            }

            if asc.iter().collect::<Vec<_>>() != set {
                rep.mismatch(json!({"op": "iter", "state": ctx}));
            }

            // queries, including dates outside the stored window
            for (i, q) in line["queries"].as_array().unwrap().iter().enumerate() {
                let qd = date_of(q);
                rep.evaluations += 2;

                for cal in [&asc, &desc, &collected] {
                    if cal.contains(qd) != line["holds"][i].as_bool().unwrap() {
                        rep.mismatch(json!({"op": "contains", "state": ctx, "date": q, "got": cal.contains(qd)}));
                    }

                    if opt_json(cal.first_after(qd)) != line["first_after"][i] {
                        rep.mismatch(json!({"op": "first_after", "state": ctx, "date": q,
                            "expected": line["first_after"][i], "got": opt_json(cal.first_after(qd))}));
                    }
                }
            }

            // every outgoing transition
            for (i, ins) in line["inserts"].as_array().unwrap().iter().enumerate() {
                let d = date_of(ins);
                rep.evaluations += 1;

                for base in [&asc, &desc] {
                    let mut next = base.clone();
                    let new = next.insert(d);

                    if new != line["is_new"][i].as_bool().unwrap() {
                        rep.mismatch(json!({"op": "insert", "state": ctx, "date": ins, "got": new}));
                    }

                    // the successor equals the calendar of the successor set built in another order
                    let mut succ_set = set.clone();
                    if !succ_set.contains(&d) {
                        succ_set.push(d);
                    }
                    let other: CompactCalendar = shuffled(&mut rng, &succ_set).into_iter().collect();

                    if next != other || !next.contains(d) || *base != asc {
                        rep.mismatch(json!({"op": "insert_successor", "state": ctx, "date": ins}));
                    }
                }
            }

            // serialisation round trip with byte accounting
            let bytes = serialize(&asc);
            rep.evaluations += 1;

            if bytes.len() as u64 != line["bytes"].as_u64().unwrap() {
                rep.mismatch(json!({"op": "serialize_len", "state": ctx, "got": bytes.len(), "expected": line["bytes"]}));
            }

            let mut reader = bytes.as_slice();
            match CompactCalendar::deserialize(&mut reader) {
                Ok(back) if back == asc && reader.is_empty() => {}
                Ok(_) => rep.mismatch(json!({"op": "roundtrip", "state": ctx, "left": reader.len()})),
                Err(e) => rep.mismatch(json!({"op": "roundtrip", "state": ctx, "error": e.to_string()})),
            }

            (rep, behaviours, asc, bytes.len())
        });

        match res {
            Ok((r, b, cal, len)) => {
                rep.evaluations += r.evaluations;
                rep.mismatches += r.mismatches;
                behaviours += b;
                recent.push((cal, len));
            }
            Err(p) => rep.mismatch(json!({"op": "state", "state": ctx, "panic": p})),
        }

        // several calendars in one stream (the three most recent states)
        if recent.len() >= 3 {
            let last3 = &recent[recent.len() - 3..];
            let mut stream = Vec::new();

            for (cal, _) in last3 {
                cal.serialize(&mut stream).unwrap();
            }

            let total = stream.len();
            let mut reader = stream.as_slice();
            let mut consumed = 0;
            rep.evaluations += 1;
            behaviours += 1;

            for (cal, len) in last3 {
                match guarded(|| CompactCalendar::deserialize(&mut reader)) {
                    Ok(Ok(back)) => {
                        consumed += len;

                        if back != *cal || reader.len() != total - consumed {
                            rep.mismatch(json!({"op": "stream", "state": ctx, "left": reader.len(), "expected_left": total - consumed}));
                        }
                    }
                    other => {
                        rep.mismatch(json!({"op": "stream", "state": ctx, "error": format!("{other:?}")}));
                        break;
                    }
                }
            }

            let mut rest = Vec::new();
            reader.read_to_end(&mut rest).unwrap();

            if !rest.is_empty() {
                rep.mismatch(json!({"op": "stream_rest", "state": ctx, "left": rest.len()}));
            }

            if recent.len() > 8 {
                recent.remove(0);
            }
        }
    }

    rep.nontrivial = lines.len() as u64;
    println!(
        "SUMMARY {}",
        json!({"evaluations": rep.evaluations, "mismatches": rep.mismatches, "nontrivial": rep.nontrivial,
               "behaviours": behaviours, "extra": {"states": lines.len()}})
    );
}

fn random_date(rng: &mut Rng, center: i32) -> NaiveDate {
    loop {
        let year = match rng.below(10) {
            0..=5 => center + rng.range(-2, 2) as i32,
            6 | 7 => center + rng.range(-40, 40) as i32,
            8 => rng.range(-3000, 3000) as i32,
            _ => rng.range(-262_000, 262_000) as i32,
        };
        let month = rng.range(1, 12) as u32;
        let day = match rng.below(4) {
            0 => 1,
            1 => *rng.pick(&[28, 29, 30, 31]),
            _ => rng.range(1, 31) as u32,
        };

        if let Some(d) = NaiveDate::from_ymd_opt(year, month, day) {
            return d;
        }
    }
}

/// Random histories of one calendar.
pub fn record(args: &Args) {
    let mut rng = Rng::new(args.get_u64("seed", 1));
    let n = args.get_u64("n", 1000);
    let corrupt = args.get_u64("corrupt", 0);

    for line in 0..n {
        let mut chain: Vec<Value> = Vec::new();
        let mut cal = CompactCalendar::default();
        let mut order: Vec<NaiveDate> = Vec::new();
        let center = match rng.below(4) {
            0 => 0,
            1 => rng.range(-5, 5) as i32,
            2 => rng.range(1990, 2085) as i32,
            _ => rng.range(-200_000, 200_000) as i32,
        };
        let steps = 2 + rng.below(24);

        let outcome = guarded(std::panic::AssertUnwindSafe(|| {
        for _ in 0..steps {
            match rng.below(12) {
                0..=4 => {
                    let d = if !order.is_empty() && rng.chance(1, 5) {
                        *rng.pick(&order)
                    } else {
                        random_date(&mut rng, center)
                    };
                    let r = cal.insert(d);
                    order.push(d);
                    chain.push(json!({"op": "insert", "arg": json_of(d), "res": r}));
                }
                5 | 6 => {
                    let d = if !order.is_empty() && rng.chance(1, 2) {
                        *rng.pick(&order)
                    } else {
                        random_date(&mut rng, center)
                    };
                    chain.push(json!({"op": "contains", "arg": json_of(d), "res": cal.contains(d)}));
                }
                7 | 8 => {
                    let d = if !order.is_empty() && rng.chance(1, 2) {
                        let d = *rng.pick(&order);
                        if rng.chance(1, 3) { d.pred_opt().unwrap_or(d) } else { d }
                    } else {
                        random_date(&mut rng, center)
                    };
                    chain.push(json!({"op": "first_after", "arg": json_of(d), "res": opt_json(cal.first_after(d))}));
                }
                9 => {
                    chain.push(json!({"op": "count", "arg": [], "res": cal.count()}));
                    chain.push(json!({"op": "iter", "arg": [], "res": cal.iter().map(json_of).collect::<Vec<_>>()}));
                }
                10 => {
                    let bytes = serialize(&cal);
                    let mut stream = bytes.clone();
                    stream.extend_from_slice(&[0xAB; 7]); // trailing data must stay unread
                    let mut reader = stream.as_slice();
                    let back = CompactCalendar::deserialize(&mut reader);
                    let equal = back.map(|b| b == cal).unwrap_or(false);
                    let consumed = stream.len() - reader.len();
                    chain.push(json!({"op": "roundtrip", "arg": [], "res": {"equal": equal, "written": bytes.len(), "consumed": consumed}}));
                }
                _ => {
                    let other: CompactCalendar = shuffled(&mut rng, &order).into_iter().collect();
                    chain.push(json!({"op": "eq_reordered", "arg": [], "res": other == cal}));

                    if !order.is_empty() {
                        // drop one date (all its occurrences) or add one: equality must follow the sets
                        let mut dates: Vec<NaiveDate> = order.clone();
                        if rng.chance(1, 2) {
                            let victim = *rng.pick(&order);
                            dates.retain(|d| *d != victim);
                        } else {
                            dates.push(random_date(&mut rng, center));
                        }
                        let other: CompactCalendar = dates.iter().copied().collect();
                        chain.push(json!({"op": "eq_other", "arg": dates.iter().map(|d| json_of(*d)).collect::<Vec<_>>(), "res": other == cal}));
                    }
                }
            }
        }

        }));

        if let Err(p) = outcome {
            // a panic of the code under test is data: the history ends with an event nothing explains
            chain.push(json!({"op": "panic", "arg": [], "res": p}));
        }

        if corrupt > 0 && line + 1 == corrupt {
            let idx = chain.iter().rposition(|e| e["op"] == "insert").unwrap_or(0);
            chain[idx]["res"] = json!(!chain[idx]["res"].as_bool().unwrap_or(false));
        }

        println!("{}", json!({"chain": chain}));
    }
}
