//! C01 / C17: day schedules against DayEval.tla. Event = (AST the library evaluated, context,
//! probe days, the tiling `schedule_at` returned for each day).

use opening_hours::OpeningHours;
use serde_json::{json, Value};

use crate::astjson::{self, date_of_daynum};
use crate::ctxs::Ctx;
use crate::exprs::{corpus, Gen, GenOpts};
use crate::probes::probe_days;
use crate::rng::Rng;
use crate::t_schedule::tiling_json;
use crate::util::guarded;
use crate::Args;

fn chrono_ok(n: i64) -> bool {
    (-95_000_000..95_000_000).contains(&n)
}

/// One event for an expression string, or None if it does not parse / panics in parse.
pub fn event(id: u64, src: &str, ctx: &Ctx, rng: &mut Rng, ndays: usize, extra_days: &[i64]) -> Option<Value> {
    let parsed = guarded(|| opening_hours_syntax::parse(src)).ok()?.ok()?;
    let oh = guarded(|| OpeningHours::parse(src)).ok()?.ok()?.with_context(ctx.context());
    let mut days = probe_days(&parsed, ctx, rng, ndays);
    days.extend(extra_days.iter().copied());
    days.sort();
    days.dedup();
    days.retain(|n| chrono_ok(*n));
    let mut tilings = Vec::new();
    let mut kept = Vec::new();
    let mut panics = Vec::new();

    for n in days {
        match guarded(|| tiling_json(&oh.schedule_at(date_of_daynum(n)))) {
            Ok(t) => {
                kept.push(n);
                tilings.push(t);
            }
            Err(p) => panics.push(json!({"day": n, "panic": p})),
        }
    }

    Some(json!({
        "id": id, "src": src, "expr": astjson::expr(&parsed), "ctx": ctx.json(),
        "days": kept, "tilings": tilings, "panics": panics, "is_constant": parsed.is_constant(),
    }))
}

pub fn record(args: &Args) {
    let seed = args.get_u64("seed", 1);
    let mut rng = Rng::new(seed);
    let n = args.get_u64("n", 500);
    let ndays = args.get_u64("days", 24) as usize;
    let corrupt = args.get_u64("corrupt", 0);
    let mode = args.get_str("mode", "all");
    let mut id = 0u64;
    let out = |v: Option<Value>, id: &mut u64| {
        if let Some(mut v) = v {
            *id += 1;
            if corrupt > 0 && *id == corrupt {
                // self-test: shift the first boundary of the first multi-tile day by one minute
                if let Some(t) = v["tilings"].as_array_mut().and_then(|ts| ts.iter_mut().find(|t| t.as_array().unwrap().len() > 1)) {
                    let b = t[0][1].as_i64().unwrap();
                    t[0][1] = json!(b + 1);
                    t[1][0] = json!(b + 1);
                } else if let Some(t) = v["tilings"].as_array_mut().and_then(|ts| ts.first_mut()) {
                    let k = t[0][2].as_str().unwrap().to_string();
                    t[0][2] = json!(if k == "open" { "closed" } else { "open" });
                }
            }
            println!("{v}");
        }
    };

    if mode == "all" || mode == "corpus" {
        // the days the repository's own assertions are about (every date written in its test sources): twelve of them per
        // expression, rotating, so that the specification is also confronted with what the suite pins
        let pinned = crate::exprs::test_dates();
        for (k, src) in corpus().into_iter().enumerate() {
            let ctx = if src.contains("PH") || src.contains("SH") || rng.chance(1, 4) { Ctx::random(&mut rng) } else { Ctx::plain() };
            let extra: Vec<i64> = if pinned.is_empty() { vec![] } else { (0..12).map(|j| pinned[(k * 12 + j + seed as usize) % pinned.len()]).collect() };
            let ev = event(id + 1, &src, &ctx, &mut rng, ndays, &extra);
            out(ev, &mut id);
        }
    }

    if mode == "cases" {
        // sentences derived by TLC from Grammar.tla (every selector kind and variant)
        let path = args.opt.get("cases").expect("--cases <file>");
        let every = args.get_u64("every", 1);
        for (i, c) in crate::util::read_ndjson(path).iter().enumerate() {
            if c["expect"] != "accept" || (i as u64 + seed) % every != 0 {
                continue;
            }
            let src = c["text"].as_str().unwrap().to_string();
            let ctx = if src.contains("PH") || src.contains("SH") { Ctx::random(&mut rng) } else { Ctx::plain() };
            let ev = event(id + 1, &src, &ctx, &mut rng, ndays, &[]);
            out(ev, &mut id);
        }
    }

    if mode == "comments" {
        // every rule carries its own distinguishable comment (C17)
        let mut produced = 0;
        let mut attempts = 0;

        while produced < n && attempts < n * 20 {
            attempts += 1;
            let src = crate::exprs::commented_expression(&mut rng);
            let ctx = if src.contains("PH") || src.contains("SH") { Ctx::random(&mut rng) } else { Ctx::plain() };
            let ev = event(id + 1, &src, &ctx, &mut rng, ndays, &[]);
            if ev.is_some() {
                produced += 1;
            }
            out(ev, &mut id);
        }
    }

    if mode == "all" || mode == "random" {
        let mut produced = 0;
        let mut attempts = 0;

        while produced < n && attempts < n * 20 {
            attempts += 1;
            let opts = GenOpts { corners: rng.chance(1, 4), ..GenOpts::default() };
            let src = Gen { rng: &mut rng, opts }.expression();
            let ctx = if src.contains("PH") || src.contains("SH") || rng.chance(1, 3) { Ctx::random(&mut rng) } else { Ctx::plain() };
            let ev = event(id + 1, &src, &ctx, &mut rng, ndays, &[]);

            if ev.is_some() {
                produced += 1;
            }

            out(ev, &mut id);
        }
    }
}
