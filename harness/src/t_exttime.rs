//! C19: ExtendedTime against ExtTime.tla.

use std::convert::TryInto;

use chrono::{NaiveTime, Timelike};
use opening_hours_syntax::ExtendedTime;
use serde_json::{json, Value};

use crate::rng::Rng;
use crate::util::{guarded, read_json, Report};
use crate::Args;

const NONE: i64 = -1;

fn abs(t: Option<ExtendedTime>) -> i64 {
    t.map(|t| i64::from(t.mins_from_midnight())).unwrap_or(NONE)
}

fn et(mins: i64) -> ExtendedTime {
    ExtendedTime::from_mins_from_midnight(mins as u16).expect("valid extended time")
}

/// Replay the expected tables produced by Gen_ExtTime through the real type.
pub fn replay(args: &Args) {
    let tables = read_json(&args.pos[2]);
    let mut rep = Report::new();

    // new: all (u8, u8)
    for (h, row) in tables["new"].as_array().unwrap().iter().enumerate() {
        for (m, exp) in row.as_array().unwrap().iter().enumerate() {
            let exp = exp.as_i64().unwrap();
            let got = guarded(|| ExtendedTime::new(h as u8, m as u8));
            rep.evaluations += 1;

            match got {
                Ok(got) => {
                    let ok = abs(got) == exp
                        && got.map(|t| t.hour() == h as u8 && t.minute() == m as u8).unwrap_or(true);

                    if !ok {
                        rep.mismatch(json!({"op": "new", "h": h, "m": m, "expected": exp, "got": abs(got)}));
                    }
                }
                Err(p) => rep.mismatch(json!({"op": "new", "h": h, "m": m, "panic": p})),
            }
        }
    }

    // from_mins_from_midnight: all u16
    for (n, exp) in tables["from_mins"].as_array().unwrap().iter().enumerate() {
        let exp = exp.as_i64().unwrap();
        rep.evaluations += 1;

        match guarded(|| ExtendedTime::from_mins_from_midnight(n as u16)) {
            Ok(got) if abs(got) == exp => {}
            Ok(got) => rep.mismatch(json!({"op": "from_mins", "n": n, "expected": exp, "got": abs(got)})),
            Err(p) => rep.mismatch(json!({"op": "from_mins", "n": n, "panic": p})),
        }
    }

    // add_hours: all values x all i8
    for (t, row) in tables["add_hours"].as_array().unwrap().iter().enumerate() {
        for (j, exp) in row.as_array().unwrap().iter().enumerate() {
            let h = (j as i64 - 128) as i8;
            let exp = exp.as_i64().unwrap();
            rep.evaluations += 1;

            match guarded(|| et(t as i64).add_hours(h)) {
                Ok(got) if abs(got) == exp => {}
                Ok(got) => rep.mismatch(json!({"op": "add_hours", "t": t, "h": h, "expected": exp, "got": abs(got)})),
                Err(p) => rep.mismatch(json!({"op": "add_hours", "t": t, "h": h, "panic": p})),
            }
        }
    }

    // add_minutes: all values x all i16, through the validity interval given by the spec
    for (t, bounds) in tables["add_minutes_valid"].as_array().unwrap().iter().enumerate() {
        let lo = bounds[0].as_i64().unwrap();
        let hi = bounds[1].as_i64().unwrap();
        let base = et(t as i64);

        for d in i16::MIN..=i16::MAX {
            let exp = if lo <= i64::from(d) && i64::from(d) <= hi { t as i64 + i64::from(d) } else { NONE };
            rep.evaluations += 1;

            match guarded(|| base.add_minutes(d)) {
                Ok(got) if abs(got) == exp => {}
                Ok(got) => rep.mismatch(json!({"op": "add_minutes", "t": t, "d": d, "expected": exp, "got": abs(got)})),
                Err(p) => rep.mismatch(json!({"op": "add_minutes", "t": t, "d": d, "panic": p})),
            }
        }
    }

    // add_minutes: full rows computed by TLC for boundary values
    for (t, row) in tables["add_minutes_rows"].as_object().unwrap() {
        let t: i64 = t.parse().unwrap();

        for (j, exp) in row.as_array().unwrap().iter().enumerate() {
            let d = (j as i64 - 32768) as i16;
            let exp = exp.as_i64().unwrap();
            rep.evaluations += 1;

            match guarded(|| et(t).add_minutes(d)) {
                Ok(got) if abs(got) == exp => {}
                Ok(got) => rep.mismatch(json!({"op": "add_minutes_row", "t": t, "d": d, "expected": exp, "got": abs(got)})),
                Err(p) => rep.mismatch(json!({"op": "add_minutes_row", "t": t, "d": d, "panic": p})),
            }
        }
    }

    // Display, hour, minute, TryInto<NaiveTime>, From<NaiveTime>
    let show = tables["show"].as_array().unwrap();
    let to_clock = tables["to_clock"].as_array().unwrap();
    let hour = tables["hour"].as_array().unwrap();
    let minute = tables["minute"].as_array().unwrap();

    for t in 0..show.len() {
        let v = et(t as i64);
        rep.evaluations += 4;

        if v.to_string() != show[t].as_str().unwrap() || format!("{v:?}") != show[t].as_str().unwrap() {
            rep.mismatch(json!({"op": "show", "t": t, "expected": show[t], "got": v.to_string()}));
        }

        if i64::from(v.hour()) != hour[t].as_i64().unwrap() || i64::from(v.minute()) != minute[t].as_i64().unwrap() {
            rep.mismatch(json!({"op": "hour_minute", "t": t, "got": [v.hour(), v.minute()]}));
        }

        let clock: Result<NaiveTime, ()> = v.try_into();
        let got = clock.map(|c| i64::from(c.num_seconds_from_midnight())).unwrap_or(NONE);

        if got != to_clock[t].as_i64().unwrap() {
            rep.mismatch(json!({"op": "to_clock", "t": t, "expected": to_clock[t], "got": got}));
        }

        if let Ok(c) = clock {
            // From<NaiveTime> drops the seconds
            for s in [0u32, 1, 59] {
                let c2 = c.with_second(s).unwrap();
                if abs(Some(ExtendedTime::from(c2))) != t as i64 {
                    rep.mismatch(json!({"op": "from_clock", "t": t, "s": s}));
                }
            }
        }
    }

    // Ord is minute order: all pairs
    let all: Vec<ExtendedTime> = (0..show.len()).map(|t| et(t as i64)).collect();

    for (a, x) in all.iter().enumerate() {
        for (b, y) in all.iter().enumerate() {
            rep.evaluations += 1;

            if x.cmp(y) != a.cmp(&b) || (x == y) != (a == b) {
                rep.mismatch(json!({"op": "cmp", "a": a, "b": b}));
            }
        }
    }

    rep.nontrivial = rep.evaluations;
    rep.finish(Value::Null);
}

/// Record random histories (chains of add_minutes / add_hours on one value) as ndjson.
pub fn record(args: &Args) {
    let mut rng = Rng::new(args.get_u64("seed", 1));
    let n = args.get_u64("n", 1000);
    let corrupt = args.get_u64("corrupt", 0); // self-test: falsify one recorded result

    for line in 0..n {
        let mut chain = Vec::new();
        let mut cur = match rng.below(3) {
            0 => {
                let (h, m) = (rng.below(256) as u8, rng.below(256) as u8);
                let r = ExtendedTime::new(h, m);
                chain.push(json!({"op": "new", "t": h, "arg": m, "res": abs(r)}));
                r
            }
            1 => {
                let v = if rng.chance(1, 2) { rng.below(3000) } else { rng.below(65536) } as u16;
                let r = ExtendedTime::from_mins_from_midnight(v);
                chain.push(json!({"op": "from_mins", "t": v, "arg": 0, "res": abs(r)}));
                r
            }
            _ => {
                let (h, m) = (rng.below(49) as u8, rng.below(60) as u8);
                let r = ExtendedTime::new(h, m);
                chain.push(json!({"op": "new", "t": h, "arg": m, "res": abs(r)}));
                r
            }
        };

        let steps = rng.below(7);

        for _ in 0..steps {
            let Some(t) = cur else { break };

            match rng.below(4) {
                0 => {
                    let d = match rng.below(3) {
                        0 => rng.range(-120, 120),
                        1 => rng.range(-3000, 3000),
                        _ => rng.range(i64::from(i16::MIN), i64::from(i16::MAX)),
                    } as i16;
                    let r = t.add_minutes(d);
                    chain.push(json!({"op": "add_minutes", "t": abs(Some(t)), "arg": d, "res": abs(r)}));
                    cur = r;
                }
                1 => {
                    let h = if rng.chance(1, 2) { rng.range(-50, 50) } else { rng.range(-128, 127) } as i8;
                    let r = t.add_hours(h);
                    chain.push(json!({"op": "add_hours", "t": abs(Some(t)), "arg": h, "res": abs(r)}));
                    cur = r;
                }
                2 => {
                    chain.push(json!({"op": "show", "t": abs(Some(t)), "arg": 0, "res": t.to_string()}));
                }
                _ => {
                    let o = et(rng.range(0, 2880));
                    let c = match t.cmp(&o) {
                        std::cmp::Ordering::Less => -1,
                        std::cmp::Ordering::Equal => 0,
                        std::cmp::Ordering::Greater => 1,
                    };
                    chain.push(json!({"op": "cmp", "t": abs(Some(t)), "arg": abs(Some(o)), "res": c}));
                }
            }
        }

        if corrupt > 0 && line + 1 == corrupt {
            let last = chain.last_mut().unwrap();
            last["res"] = match &last["res"] {
                Value::Number(x) => json!(x.as_i64().unwrap() + 1),
                _ => json!("99:99"),
            };
        }

        println!("{}", json!({"chain": chain}));
    }
}
