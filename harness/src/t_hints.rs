//! Hints: the expression-level `next_change_hint` of the real code (hook `verif_next_change_hint`) on (expression, day)
//! pairs, with the library's own day tilings of the days the hint lets the iterator skip (at most `look` of them).
//! Trace_Hints checks the contract on those tilings and compares the hint with the transcription of Hints.tla.

use opening_hours::OpeningHours;
use serde_json::{json, Value};

use crate::astjson::{self, date_of_daynum, daynum};
use crate::ctxs::{Ctx, SynthLocale};
use crate::exprs::{corpus, Gen, GenOpts};
use crate::probes::{critical, DAY_MAX, DAY_MIN};
use crate::rng::Rng;
use crate::util::{guarded, read_ndjson};
use crate::Args;

type Oh = OpeningHours<SynthLocale>;
pub const NONE: i64 = -100_000_000;

/// Selector shapes whose hints are transcribed in Hints.tla, alone and combined, with whole-day and partial spans.
const FAMILY: &[&str] = &[
    "2024", "2020-2030/3", "2022-2026", "2030+", "2028-2022", "2020,2024", "1900", "9999", "2020-9999/7",
    "Jan", "Nov-Feb", "Jan-Dec", "Mar-Feb", "2021Mar", "2021Nov-Feb", "2020Dec", "2024Jan-Dec", "Jan,Jun-Aug",
    "week 1", "week 53", "week 1-53", "week 1-53/2", "week 10-20/3", "week 52-53", "week 50-03", "week 2,10-12",
    "PH", "SH", "PH +1 day", "PH -2 days", "PH,SH", "Mo-Fr", "Mo[1]", "PH off", "24/7 ; PH off",
    "2024 week 1-2", "Jan week 1", "Dec-Jan week 1 Mo-Fr", "2024Feb week 9", "2020-2030/2 Jul-Aug", "2024 PH",
    "Jan 10:00-12:00", "week 1-2 18:00-06:00", "2024 00:00-24:00 ; Jan off", "Jan ; Feb 10:00-12:00", "week 53 22:00-26:00",
    "Jan-Mar || week 10-20 unknown", "2024 ; 2025 closed", "Jan, week 5 10:00-12:00", "Dec 22:00-26:00 ; Jan off",
    "2025 Feb 21-easter", "2030 Mar 1-2030 easter", "easter-2025 Jun 1", "2100 Dec 20-Jan 5", "2400 easter -2 days-2400 Jun 1", "2021 Mar 28-Apr 16",
    "Jan || closed", "week 1 Mo 00:00-24:00 || 2030+ unknown", "Jan closed || Feb || open", "PH -1 day 20:00-28:00",
];

fn tiling(oh: &Oh, n: i64) -> Value {
    Value::Array(
        oh.schedule_at(date_of_daynum(n))
            .into_iter()
            .map(|tr| json!([tr.range.start.mins_from_midnight(), tr.range.end.mins_from_midnight(), tr.kind.as_str()]))
            .collect(),
    )
}

fn event(id: u64, src: &str, ctx: &Ctx, n: i64, look: i64) -> Option<Value> {
    let parsed = guarded(|| opening_hours_syntax::parse(src)).ok()?.ok()?;
    let oh = guarded(|| OpeningHours::parse(src)).ok()?.ok()?.with_context(ctx.context());
    let date = date_of_daynum(n);
    let hint = match guarded(|| oh.verif_next_change_hint(date)) {
        Ok(h) => h,
        Err(p) => return Some(json!({"id": id, "src": src, "ctx": ctx.json(), "n": n, "panic": p})),
    };
    let h = hint.map(daynum).unwrap_or(NONE);
    // the day itself and days the hint allows to skip: the first `look` ones, the last 15 before the hint and four in between
    let mut days: std::collections::BTreeSet<i64> = [n].into_iter().collect();
    if h != NONE && h > n {
        let top = (h - 1).min(DAY_MAX + 2);
        days.extend(n + 1..=top.min(n + look));
        days.extend((top - 14).max(n + 1)..=top);
        days.extend((1..5).map(|k| n + k * ((top - n) / 5)).filter(|d| *d > n && *d <= top));
    }
    let mut runs: Vec<(i64, i64, Value)> = Vec::new();
    let res = guarded(|| {
        for d in days {
            let t = tiling(&oh, d);
            match runs.last_mut() {
                Some((_, b, prev)) if *prev == t && *b == d - 1 => *b = d,
                _ => runs.push((d, d, t)),
            }
        }
    });
    if let Err(p) = res {
        return Some(json!({"id": id, "src": src, "ctx": ctx.json(), "n": n, "panic": p}));
    }
    Some(json!({
        "id": id, "src": src, "expr": astjson::expr(&parsed), "ctx": ctx.json(), "n": n, "hint": h, "look": look,
        "runs": runs.into_iter().map(|(a, b, t)| json!([a, b, t])).collect::<Vec<_>>(),
    }))
}

pub fn record(args: &Args) {
    let seed = args.get_u64("seed", 1);
    let mut rng = Rng::new(seed);
    let n = args.get_u64("n", 300);
    let look = args.get_u64("look", 45) as i64;
    let per = args.get_u64("days", 6) as usize;
    let corrupt = args.get_u64("corrupt", 0);
    let (part, parts) = (args.get_u64("part", 0) as usize, args.get_u64("parts", 1) as usize);
    let mut sources: Vec<String> = FAMILY.iter().map(|s| s.to_string()).collect();

    if let Some(path) = args.opt.get("cases") {
        for c in read_ndjson(path) {
            if let Some(s) = c["src"].as_str().or(c["text"].as_str()) {
                sources.push(s.to_string());
            }
        }
    }

    let corp = corpus();
    for i in 0..n {
        if i % 3 == 0 && !corp.is_empty() {
            sources.push(rng.pick(&corp).clone());
        } else {
            let opts = GenOpts { corners: rng.chance(1, 8), canonical_bias: rng.chance(1, 2), events: rng.chance(1, 6), holidays: rng.chance(1, 3) };
            sources.push(Gen { rng: &mut rng, opts }.expression());
        }
    }

    let mut id = 0u64;

    for (idx, src) in sources.iter().enumerate() {
        // every process draws the same random sequence, so that the parts are disjoint and reproducible
        let ctx = if src.contains("PH") || src.contains("SH") { Ctx::random(&mut rng) } else { Ctx::plain() };
        let Ok(Ok(parsed)) = guarded(|| opening_hours_syntax::parse(src)) else { continue };
        let crit = critical(&parsed, &ctx);
        let mut days: Vec<i64> = Vec::new();
        for _ in 0..per {
            days.push(if !crit.is_empty() && rng.chance(3, 4) { *rng.pick(&crit) + rng.range(-1, 1) } else { rng.range(DAY_MIN - 3, DAY_MAX + 3) });
        }
        if idx % parts != part {
            continue;
        }
        for d in days {
            if let Some(mut ev) = event(id + 1, src, &ctx, d, look) {
                id += 1;
                if corrupt > 0 && id == corrupt {
                    // self-test: pretend the code answered a hint far beyond a day that differs
                    let n = ev["n"].as_i64().unwrap().clamp(DAY_MIN, DAY_MAX - 500);
                    let day = json!([[0, 600, "closed"], [600, 720, "open"], [720, 1440, "closed"]]);
                    ev["n"] = json!(n);
                    ev["hint"] = json!(n + 400);
                    ev["runs"] = json!([[n, n + 45, day]]);
                }
                println!("{ev}");
            }
        }
    }
}
