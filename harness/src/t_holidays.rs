//! C10: the embedded holiday calendars, extracted exhaustively through the real decode path.

use std::str::FromStr;

use chrono::NaiveDate;
use opening_hours::localization::Country;
use opening_hours::{Context, OpeningHours};
use serde_json::json;

use crate::astjson::{date_of_daynum, daynum};
use crate::Args;

pub fn record(_args: &Args) {
    let lo = daynum(NaiveDate::from_ymd_opt(1990, 1, 1).unwrap());
    let hi = daynum(NaiveDate::from_ymd_opt(2085, 12, 31).unwrap());
    let mut id = 0;

    for country in Country::ALL {
        let holidays = country.holidays();
        let code = country.iso_code();
        let roundtrip = Country::from_str(code).map(|c| c == country).unwrap_or(false);

        for (kind, cal, selector) in [("public", holidays.get_public(), "PH"), ("school", holidays.get_school(), "SH")] {
            id += 1;
            let listing: Vec<i64> = cal.iter().map(daynum).collect();
            let scan: Vec<i64> = (lo..=hi).filter(|n| cal.contains(date_of_daynum(*n))).collect();
            let mut chain = Vec::new();
            let mut cur = date_of_daynum(lo - 1);

            while let Some(next) = cal.first_after(cur) {
                chain.push(daynum(next));
                cur = next;
                if chain.len() > 200_000 {
                    break;
                }
            }

            // what the selector sees when the country's calendars are attached to the context
            let oh = OpeningHours::parse(selector).unwrap().with_context(Context::default().with_holidays(country.holidays()));
            let mut probes: Vec<i64> = listing.iter().flat_map(|n| [n - 1, *n, n + 1]).collect();
            probes.sort();
            probes.dedup();
            let selected: Vec<i64> = probes
                .iter()
                .copied()
                .filter(|n| oh.schedule_at(date_of_daynum(*n)).into_iter().all(|tr| tr.kind == opening_hours::RuleKind::Open))
                .collect();

            println!(
                "{}",
                json!({"id": id, "what": "calendar", "country": code, "kind": kind, "roundtrip": roundtrip,
                       "listing": listing, "count": cal.count(), "scan_lo": lo, "scan_hi": hi, "scan": scan,
                       "chain_from": lo - 1, "chain": chain, "probes": probes.len(), "selected": selected})
            );
        }
    }

    // the country table: every two-letter code, lower case, long names
    let mut accepted = Vec::new();
    let mut tried = 0;

    for a in b'A'..=b'Z' {
        for b in b'A'..=b'Z' {
            let s = String::from_utf8(vec![a, b]).unwrap();
            tried += 1;
            if let Ok(c) = Country::from_str(&s) {
                accepted.push(json!([s, c.iso_code()]));
            }
        }
    }

    let odd: Vec<String> = ["fr", "Fr", "FRA", "France", "", " FR", "FR ", "F", "ÉÉ", "00", "fr-FR"].iter().map(|s| s.to_string()).collect();
    let odd_accepted: Vec<&String> = odd.iter().filter(|s| Country::from_str(s).is_ok()).collect();
    let all: Vec<&str> = Country::ALL.iter().map(|c| c.iso_code()).collect();
    let names_unique = {
        let mut names: Vec<&str> = Country::ALL.iter().map(|c| c.name()).collect();
        names.sort();
        names.windows(2).all(|w| w[0] != w[1])
    };

    println!(
        "{}",
        json!({"id": id + 1, "what": "table", "all": all, "tried": tried, "accepted": accepted, "odd": odd,
               "odd_accepted": odd_accepted, "names_unique": names_unique})
    );
}
