//! C02 / C03 / C08 / C16 (and the first-interval clause of C17): the interval stream, state and
//! next_change against Iterator.tla. Every event carries the run-length encoded day tilings
//! (from `schedule_at`) of every day it spans, so that no skipped day goes unexamined.

use chrono::{Duration, NaiveDate, NaiveDateTime, NaiveTime, Timelike};
use opening_hours::{Context, OpeningHours};
use serde_json::{json, Value};

use crate::astjson::{self, date_of_daynum, daynum};
use crate::ctxs::{Ctx, SynthLocale};
use crate::exprs::{corpus, Gen, GenOpts};
use crate::probes::{critical, DAY_MAX, DAY_MIN};
use crate::rng::Rng;
use crate::t_schedule::tiling_json;
use crate::util::{guarded, with_timeout};
use crate::Args;

type Oh = OpeningHours<SynthLocale>;

pub fn instant(dt: NaiveDateTime) -> Value {
    json!([daynum(dt.date()), dt.time().num_seconds_from_midnight()])
}

fn datetime(day: i64, sec: u32) -> NaiveDateTime {
    NaiveDateTime::new(date_of_daynum(day), NaiveTime::from_num_seconds_from_midnight_opt(sec, 0).unwrap())
}

/// Run-length encoded day tilings of days lo..=hi: [[first, last, tiling], ...]
fn runs(oh: &Oh, lo: i64, hi: i64) -> Vec<Value> {
    let mut out: Vec<(i64, i64, Value)> = Vec::new();

    for d in lo..=hi {
        let til = tiling_json(&oh.schedule_at(date_of_daynum(d)));

        match out.last_mut() {
            Some((_, last, t)) if *t == til && *last == d - 1 => *last = d,
            _ => out.push((d, d, til)),
        }
    }

    out.into_iter().map(|(a, b, t)| json!([a, b, t])).collect()
}

/// Number of elementary pieces the specification will have to build for these runs.
fn cost(runs: &[Value]) -> i64 {
    runs.iter()
        .map(|r| {
            let tiles = r[2].as_array().unwrap().len() as i64;
            if tiles == 1 { 1 } else { tiles * (r[1].as_i64().unwrap() - r[0].as_i64().unwrap() + 1) }
        })
        .sum()
}

#[derive(Clone)]
pub struct Limits {
    pub max_days: i64,
    pub max_cost: i64,
    pub max_intervals: usize,
}

fn interval_json(r: &opening_hours::DateTimeRange) -> Value {
    json!([
        instant(r.range.start), instant(r.range.end), r.kind.as_str(),
        r.comments.iter().map(|c| c.to_string()).collect::<Vec<_>>()
    ])
}

fn base(id: u64, src: &str, ctx: &Ctx, what: &str) -> Value {
    json!({"id": id, "src": src, "ctx": ctx.json(), "what": what})
}

/// C02: iter_range(from, to) with the schedules of every day of the (possibly shortened) window.
pub fn range_event(id: u64, src: &str, oh: &Oh, ctx: &Ctx, from: NaiveDateTime, to: NaiveDateTime, lim: &Limits) -> Option<Value> {
    let mut ev = base(id, src, ctx, "range");
    let taken: Vec<_> = match guarded(|| oh.iter_range(from, to).take(lim.max_intervals + 1).collect::<Vec<_>>()) {
        Ok(v) => v,
        Err(p) => {
            ev["panic"] = json!(p);
            ev["from"] = instant(from);
            ev["to"] = instant(to);
            return Some(ev);
        }
    };

    let end_day = daynum(NaiveDate::from_ymd_opt(10_000, 1, 1).unwrap());
    // days long before 1900 are not recorded one by one (closed by definition, sampled once)
    let lo = daynum(from.date()).max(DAY_MIN - 2);
    if daynum(from.date()) < lo {
        ev["far_sample"] = tiling_json(&oh.schedule_at(from.date()));
    }
    // shorten the window so that the schedules stay within the budget
    let mut eff_to = to;
    let mut ivs = taken;

    let mut rounds = 0;

    loop {
        rounds += 1;
        if rounds > 40 {
            return None;
        }
        let truncated = ivs.len() > lim.max_intervals;
        if truncated {
            ivs.truncate(lim.max_intervals);
            // look one day beyond the last kept interval: the state must really change there
            eff_to = std::cmp::min(to, ivs.last().unwrap().range.end + Duration::days(1));
        }

        let hi = std::cmp::min(daynum(eff_to.date()), end_day).max(lo);

        if hi - lo > lim.max_days {
            // too long: keep only the intervals that end within the budget
            let cap = datetime(lo + lim.max_days - 2, 0);
            let keep = ivs.iter().take_while(|r| r.range.end <= cap).count();
            if keep == 0 {
                // a single very long interval: check that nothing changes within the budget
                eff_to = cap;
                ivs = guarded(|| oh.iter_range(from, eff_to).collect::<Vec<_>>()).ok()?;
                if ivs.len() > lim.max_intervals {
                    return None;
                }
            } else {
                ivs.truncate(keep);
                eff_to = std::cmp::min(to, ivs.last().unwrap().range.end + Duration::days(1));
                ivs = guarded(|| oh.iter_range(from, eff_to).collect::<Vec<_>>()).ok()?;
            }
            continue;
        }

        if truncated {
            ivs = guarded(|| oh.iter_range(from, eff_to).collect::<Vec<_>>()).ok()?;
        }

        let rs = guarded(|| runs(oh, lo, hi)).ok()?;

        if cost(&rs) > lim.max_cost || ivs.len() > 4 * lim.max_intervals {
            if hi - lo <= 3 {
                return None;
            }
            // shorten by half and retry
            eff_to = std::cmp::min(eff_to, datetime(lo + (hi - lo) / 2, 0));
            ivs = guarded(|| oh.iter_range(from, eff_to).collect::<Vec<_>>()).ok()?;
            continue;
        }

        // the day jumps the iterator really made on this window (hook counters; complete below 64 long jumps):
        // the trace specification checks each one against the hint contract of machine M3 (diagnostic)
        let _ = opening_hours::verif::take_stats();
        let _ = guarded(|| oh.iter_range(from, eff_to).count());
        let st = opening_hours::verif::take_stats();
        ev["jumps"] = json!(st.long_jumps.iter().map(|(a, b)| [daynum(*a), daynum(*b)]).collect::<Vec<_>>());
        ev["jumps_complete"] = json!(st.long_jumps.len() < 64);
        ev["from"] = instant(from);
        ev["to"] = instant(eff_to);
        ev["requested_to"] = instant(to);
        ev["sched"] = Value::Array(rs);
        ev["intervals"] = Value::Array(ivs.iter().map(interval_json).collect());
        return Some(ev);
    }
}

/// Horizon (exclusive day) up to which the absence of change proves "no change until END".
fn horizon(expr: &opening_hours_syntax::rules::OpeningHoursExpression, ctx: &Ctx, t_day: i64) -> Option<i64> {
    use opening_hours_syntax::rules::day::{Date, MonthdayRange};
    let mut max_year: i64 = i64::from(chrono::Datelike::year(&date_of_daynum(t_day.clamp(DAY_MIN, DAY_MAX))));

    for r in &expr.rules {
        for y in &r.day_selector.year {
            if y.step != 1 || y.range.start() > y.range.end() {
                return None;
            }
            for v in [y.range.start().0, y.range.end().0] {
                if v < 9999 {
                    max_year = max_year.max(i64::from(v));
                }
            }
        }
        for md in &r.day_selector.monthday {
            match md {
                MonthdayRange::Month { year, .. } => {
                    if let Some(y) = year {
                        max_year = max_year.max(i64::from(*y));
                    }
                }
                MonthdayRange::Date { start, end } => {
                    for (d, _) in [start, end] {
                        match d {
                            Date::Easter { .. } => return None,
                            Date::Fixed { year: Some(y), .. } if *y < 9999 => max_year = max_year.max(i64::from(*y)),
                            _ => {}
                        }
                    }
                }
            }
        }
    }

    for h in ctx.ph.iter().chain(ctx.sh.iter()) {
        if *h < DAY_MAX - 1000 {
            max_year = max_year.max(i64::from(chrono::Datelike::year(&date_of_daynum(*h))));
        }
    }

    // every selector is periodic with period 400 years (146097 days) after the last explicit year
    let y = (max_year + 2 + 400).min(10_000);
    Some(daynum(NaiveDate::from_ymd_opt(y as i32, 1, 1)?))
}

/// C03 / C08 / C16: state, is_*, next_change at t (optionally with an interval-size bound).
pub fn point_event(id: u64, src: &str, oh: &Oh, ctx: &Ctx, t: NaiveDateTime, bound: Option<Duration>, lim: &Limits) -> Option<Value> {
    let parsed = opening_hours_syntax::parse(src).ok()?;
    let mut ev = base(id, src, ctx, if bound.is_some() { "bounded" } else { "point" });
    ev["t"] = instant(t);

    let res = guarded(|| {
        (oh.state(t), oh.is_open(t), oh.is_closed(t), oh.is_unknown(t), oh.next_change(t))
    });

    let (state, io, ic, iu, nc) = match res {
        Ok(x) => x,
        Err(p) => {
            ev["panic"] = json!(p);
            return Some(ev);
        }
    };

    ev["state"] = json!(state.as_str());
    ev["flags"] = json!([io, ic, iu]);
    ev["next_change"] = nc.map(instant).unwrap_or_else(|| json!([]));

    if let Some(b) = bound {
        let ctx_b: Context<SynthLocale> = ctx.context().approx_bound_interval_size(b);
        let oh_b = guarded(|| OpeningHours::parse(src)).ok()?.ok()?.with_context(ctx_b);
        match guarded(|| (oh_b.state(t), oh_b.next_change(t))) {
            Ok((s, n)) => {
                ev["bound"] = json!([b.num_days(), (b - Duration::days(b.num_days())).num_seconds()]);
                ev["state_b"] = json!(s.as_str());
                ev["next_change_b"] = n.map(instant).unwrap_or_else(|| json!([]));
                // a window under the bounded context: whatever the approximation does, no interval may leave [t, min(to, END))
                let to_b = match id % 4 {
                    0 => t + b / 2 + Duration::minutes(7),
                    1 => t + b * 2 + Duration::days(1),
                    2 => t + Duration::days(3_000),
                    _ => datetime(DAY_MAX + 2, 0),
                };
                match guarded(|| oh_b.iter_range(t, to_b).take(8).collect::<Vec<_>>()) {
                    Ok(ivs) => {
                        ev["to_b"] = instant(to_b);
                        ev["range_b"] = Value::Array(ivs.iter().map(interval_json).collect());
                    }
                    Err(p) => {
                        ev["panic"] = json!(p);
                        return Some(ev);
                    }
                }
            }
            Err(p) => {
                ev["panic"] = json!(p);
                return Some(ev);
            }
        }
    }

    // schedules from t's day to the day after the answer (or to the horizon that proves "none")
    let end_day = daynum(NaiveDate::from_ymd_opt(10_000, 1, 1).unwrap());
    let lo = daynum(t.date()).max(DAY_MIN - 2).min(end_day + 1);
    if daynum(t.date()) != lo {
        ev["far_sample"] = tiling_json(&oh.schedule_at(t.date()));
    }
    let (hi, complete) = match nc {
        Some(x) => (daynum(x.date()) + 1, true),
        None => match horizon(&parsed, ctx, lo) {
            Some(h) if h.max(lo) - lo <= lim.max_days => (h.max(lo + 1), true),
            _ => (lo + lim.max_days.min(8000), false),
        },
    };
    let hi = hi.min(end_day + 1).max(lo);

    if hi - lo > lim.max_days {
        // the answer is too far to be re-derived day by day: only the prefix is examined
        let rs = guarded(|| runs(oh, lo, lo + lim.max_days)).ok()?;
        if cost(&rs) > lim.max_cost {
            return None;
        }
        ev["sched"] = Value::Array(rs);
        ev["complete"] = json!(false);
        return Some(ev);
    }

    let rs = guarded(|| runs(oh, lo, hi)).ok()?;

    if cost(&rs) > lim.max_cost {
        return None;
    }

    ev["sched"] = Value::Array(rs);
    ev["complete"] = json!(complete);
    Some(ev)
}

const HINT_FAMILY: &[&str] = &[
    "24/7", "Mo-Su", "00:00-24:00", "24/7 closed", "24/7 ; PH off", "00:00-24:00 ; PH off \"ph\"", "Mo-Su ; Su off",
    "2020-2030/3", "2024", "2022-2026", "2030+", "2028-2022 10:00-12:00", "2020,8000-9000 10:00-22:00", "9999", "1900",
    "Jan", "Nov-Feb", "2021Mar", "2020Dec", "2025Jan-Mar 08:00-12:00", "Jun:10:00-12:00",
    "Jan 1", "Dec 25-Jan 5", "Feb 29", "Jan 31-Feb 29", "easter", "easter -2 days-easter +1 day", "Jul 22 04:00-48:00",
    "2021 Mar 28-Apr 16 off", "24/7 ; 2021 Mar 28-Apr 16 off", "2022 Dec 20-Jan 10", "2019Sep01+", "2020 Dec 20-2021 Jan 10",
    "Dec 31 22:00-26:00", "Mo 22:00-26:00", "Fr,Sa 20:00-28:00 ; Su off", "Mo-Fr 22:00-02:00",
    "week 1", "week 53", "week 50-03", "week 1-53/2", "week 10-20 Mo-Fr 09:00-17:00", "week04",
    "PH", "PH off", "SH", "PH +1 day", "PH -1 day", "Mo-Fr 09:00-18:00 ; PH off", "SH 10:00-12:00",
    "Mo-Fr 10:00-18:00 || closed", "Mo-Fr 10:00-18:00 || unknown", "Su closed || open", "Jun:10:00-12:00 open || Mo-Fr closed || unknown",
    "Mo[1]", "Fr[-1] 10:00-12:00", "Su[1,3] +1 day", "Feb Fr off", "Mo-Fr 08:00-12:00, 14:00-18:00", "sunrise-sunset",
    "(sunrise+01:00)-(sunset-00:30)", "Mo-Fr 10:00-12:00 \"a\", Sa 10:00-12:00 \"b\"", "10:00-12:00 open \"x\", 12:00-14:00 open \"y\"",
    "2021Nov-Feb", "2021Nov-Feb 10:00-12:00", "week 52-01", "Dec 31-Jan 1", "2024Feb", "Sa[5]", "2020-2024/2 Feb 29",
    "easter +1 day", "2022 easter-2022 Jun 1", "Jan 1-Dec 31", "week 1-53", "Mo-Su 00:00-24:00 || closed",
    "24/7 ; Su 10:00-16:00", "24/7 unknown ; Dec 24 08:00-12:00 unknown", "24/7 ; Mo-Fr 10:00-12:00, Sa 10:00-11:00",
    "2025 Feb 21-easter", "2030 Mar 1-2030 easter", "easter-2025 Jun 1", "2100 Dec 20-Jan 5", "2400 easter -2 days-2400 Jun 1",
    "2024 Feb 29", "9998-9999/2", "Dec 31 ; Jan 1 off", "Jan-Mar,Oct-Dec", "2019Sep01-Jul01:10:00-12:00",
];

const BOUNDS_FAMILY: &[&str] = &[
    "24/7", "9999", "1900", "2019Sep01+", "9998-9999/2", "Dec 31 22:00-26:00", "week 53", "week 1", "9990-1905",
    "PH", "PH off ; 24/7", "1900 Jan 1", "9999 Dec 31", "Jan 1", "Dec 31", "Mo-Su 10:00-12:00", "1900-1901", "9999 Dec 31 20:00-30:00",
    "Mo-Fr 10:00-18:00 || unknown", "24/7 unknown", "24/7 closed", "2021 Mar 28-Apr 16 off", "1900Jan", "9999Dec", "easter",
    "Sa[5]", "Dec 25-Jan 5", "1900Jan01-1900Jan02", "00:00-24:00 \"c\"",
];

/// The spill product (Hints.tla, `applies_or_spills`): every far-hinted day selector x every shape of time span with respect to
/// midnight (inside the day, ending at 24:00, passing midnight written as end < start / end > 24:00 / end == start / 48:00) x what
/// follows (nothing, a non-closed fallback rule, an unrelated rule). The iterator jumps over the days the hint declares unchanged, so
/// a span that shows on the day AFTER the selected one must be seen by the hint.
fn spill_family() -> Vec<String> {
    let selectors = ["Dec 24", "2025 Mar 3", "week 10 Mo", "easter", "PH", "Feb 29", "Dec 31"];
    let spans = ["10:00-10:00", "22:00-02:00", "20:00-26:00", "04:00-48:00", "00:00-24:00", "12:00-24:00", "24:00-26:00"];
    let tails = ["", " || unknown \"on call\"", " || Mo-Fr 10:00-12:00"];
    let mut out = Vec::new();

    for sel in selectors {
        for span in spans {
            for tail in tails {
                out.push(format!("{sel} {span}{tail}"));
            }
        }
    }

    out
}

/// The hand-written families and, rotating with the seed, half of the spill product.
fn sweep_family(seed: u64) -> Vec<String> {
    let spill = spill_family().into_iter().enumerate().filter(|(i, _)| (*i as u64 + seed) % 2 == 0).map(|(_, s)| s);
    HINT_FAMILY.iter().chain(BOUNDS_FAMILY.iter()).map(|s| s.to_string()).chain(spill).collect()
}

/// Instants at both bounds of the supported range (+-1 minute, +-1 day) and far outside.
fn pick_bound_instant(rng: &mut Rng) -> NaiveDateTime {
    let start = datetime(DAY_MIN, 0);
    let end = datetime(DAY_MAX + 1, 0);
    match rng.below(14) {
        0 => start,
        1 => start - Duration::minutes(1),
        2 => start + Duration::seconds(rng.range(0, 120)),
        3 => start - Duration::days(rng.range(0, 3)) + Duration::seconds(rng.range(0, 86_399)),
        4 => start + Duration::days(rng.range(0, 400)) + Duration::seconds(rng.range(0, 86_399)),
        5 => end,
        6 => end - Duration::minutes(1),
        7 => end - Duration::seconds(rng.range(1, 120)),
        8 => end - Duration::days(rng.range(0, 400)) - Duration::seconds(rng.range(0, 86_399)),
        9 => end + Duration::days(rng.range(0, 3)) + Duration::seconds(rng.range(0, 86_399)),
        10 => datetime(daynum(NaiveDate::from_ymd_opt(*rng.pick(&[-262_000, -50_000, 1, 1789, 1899]), 6, 15).unwrap()), rng.range(0, 86_399) as u32),
        11 => datetime(daynum(NaiveDate::from_ymd_opt(*rng.pick(&[10_000, 10_001, 50_000, 262_000]), 2, 3).unwrap()), rng.range(0, 86_399) as u32),
        12 => datetime(rng.range(DAY_MIN - 800, DAY_MIN + 800), 0),
        _ => datetime(rng.range(DAY_MAX - 800, DAY_MAX + 800), (rng.range(0, 1439) * 60) as u32),
    }
}

fn pick_instant(rng: &mut Rng, crit: &[i64]) -> NaiveDateTime {
    let day = match rng.below(12) {
        0 => DAY_MIN + rng.range(-2, 2),
        1 => DAY_MAX + rng.range(-2, 2),
        2 => rng.range(DAY_MIN, DAY_MAX),
        3 | 4 | 5 if !crit.is_empty() => *rng.pick(crit) + rng.range(-1, 1),
        _ => rng.range(17_900, 20_800),
    };
    let sec = match rng.below(6) {
        0 => 0,
        1 => 86_399,
        2 => rng.range(0, 86_399) as u32,
        3 => (rng.range(0, 1439) * 60 + 30) as u32,
        _ => (rng.range(0, 95) * 900) as u32,
    };
    datetime(day, sec)
}

pub fn record(args: &Args) {
    let seed = args.get_u64("seed", 1);
    let mut rng = Rng::new(seed);
    let n = args.get_u64("n", 300);
    let mode = args.get_str("mode", "range").to_string();
    let corrupt = args.get_u64("corrupt", 0);
    let lim = Limits {
        max_days: args.get_u64("max-days", 1500) as i64,
        max_cost: args.get_u64("max-cost", 2500) as i64,
        max_intervals: args.get_u64("max-intervals", 60) as usize,
    };
    let long_lim = Limits { max_days: args.get_u64("long-days", 160_000) as i64, max_cost: lim.max_cost, max_intervals: 12 };
    let long_every = args.get_u64("long-every", 6);
    let commented = args.get_u64("comments", 0) == 1;
    // deterministic work budget: total number of schedule_at calls (hook counter) of this process
    let work_budget = args.get_u64("work-budget", 4_000_000);
    let mut work = 0u64;
    let mut timeouts = 0u64;
    let corp = corpus();
    let mut id = 0u64;
    let mut produced = 0u64;
    let mut attempts = 0u64;

    if mode == "cases-range" || mode == "cases-point" {
        // expressions generated by TLC (Gen_Constant: every constant-shaped rule sequence of the bounded model):
        // a window of nine days from a Sunday noon and an open-ended stream / next_change from a Tuesday
        let cases = crate::util::read_ndjson(args.get_str("cases", ""));
        let every = args.get_u64("every", 1) as usize;
        let (part, parts) = (args.get_u64("part", 0) as usize, args.get_u64("parts", 1) as usize);
        let ctx = Ctx::plain();
        let sunday = daynum(NaiveDate::from_ymd_opt(2024, 6, 2).unwrap());
        // a wrongly constant sequence of this alphabet differs within a week: no need to walk centuries
        let short_lim = Limits { max_days: 60, max_cost: lim.max_cost, max_intervals: 12 };
        let end = datetime(DAY_MAX + 1, 0);

        for (idx, case) in cases.iter().enumerate() {
            if idx % parts != part || (idx / parts + seed as usize) % every != 0 {
                continue;
            }
            let src = case["src"].as_str().unwrap_or("");
            let Ok(Ok(parsed)) = guarded(|| opening_hours_syntax::parse(src)) else { continue };
            let Ok(Ok(oh)) = guarded(|| OpeningHours::parse(src)) else { continue };
            let oh = oh.with_context(ctx.context());
            let expr_json = astjson::expr(&parsed);
            // constant in fact but not recognised by is_constant (`24/7 closed ; 18:00-06:00 closed`): next_change and
            // open-ended streams walk day by day to year 9999 (seconds per call); only bounded windows for those
            let flat = !parsed.is_constant()
                && guarded(|| (0..9).all(|d| oh.schedule_at(date_of_daynum(sunday + d)).into_iter().count() == 1)).unwrap_or(false);
            let evs = if mode == "cases-point" && flat {
                vec![]
            } else if mode == "cases-point" {
                vec![
                    point_event(id + 1, src, &oh, &ctx, datetime(sunday, 43_200), None, &short_lim),
                    point_event(id + 2, src, &oh, &ctx, datetime(sunday + 2, 3_600), None, &short_lim),
                ]
            } else {
                vec![
                    range_event(id + 1, src, &oh, &ctx, datetime(sunday, 43_200), datetime(sunday + 9, 0), &lim),
                    range_event(id + 2, src, &oh, &ctx, datetime(sunday + 2, 3_600), if flat { datetime(sunday + 40, 0) } else { end }, &short_lim),
                ]
            };
            for ev in evs.into_iter().flatten() {
                let mut ev = ev;
                id += 1;
                ev["id"] = json!(id);
                ev["expr"] = expr_json.clone();
                ev["model_constant"] = case["constant"].clone();
                ev["is_constant"] = json!(parsed.is_constant());
                println!("{ev}");
            }
        }
        return;
    }

    if mode == "sweep-bounded" {
        // C16, both edges of the contract: for (expression, instant) pairs the exact distance D to the next change is measured
        // without a bound, then the bounded evaluator is asked with bounds straddling D (must answer none above B) and
        // D + 24 h (must be exact up to B - 24 h), plus fractional-day and half / double bounds
        const FAMILY: &[&str] = &[
            "Mo 10:00-12:00", "Mo-Fr 09:00-17:00", "Sa 22:00-26:00", "Mo,Th 08:00-12:00,14:00-18:00", "Jan", "Nov-Feb", "week 10", "week 1-53/2",
            "2030", "Mo[1] 10:00-12:00", "Fr[-1]", "Dec 25-Jan 5", "easter", "Jan 1", "Feb 29", "PH", "Mo-Fr 10:00-18:00 || unknown",
            "24/7 ; Su 10:00-16:00", "Jun 10:00-12:00 ; Jul off", "Mo 00:00-24:00", "2025 Feb 21-easter", "sunrise-sunset",
            // expressions that never change inside the supported range: their only change is the start of 1900 (asked from before it)
            "24/7", "24/7 unknown", "Mo-Su", "00:00-24:00 open \"always\"", "1900-9999", "Dec-Feb", "24/7 ; PH off",
        ];
        let every = args.get_u64("every", 1) as usize;
        let (part, parts) = (args.get_u64("part", 0) as usize, args.get_u64("parts", 1) as usize);
        let mut k = seed as usize;

        for (idx, src) in FAMILY.iter().enumerate() {
            if idx % parts != part {
                continue;
            }
            let Ok(Ok(parsed)) = guarded(|| opening_hours_syntax::parse(src)) else { continue };
            let ctx = if src.contains("PH") { Ctx::random(&mut rng) } else { Ctx::plain() };
            let Ok(Ok(oh)) = guarded(|| OpeningHours::parse(src)) else { continue };
            let oh = oh.with_context(ctx.context());
            let expr_json = astjson::expr(&parsed);
            let crit: Vec<i64> = critical(&parsed, &ctx).into_iter().filter(|d| (17_000..24_000).contains(d)).collect();

            // standing points before 1900-01-01 (always asked): everything is closed there, the first change is at or after the
            // start of the supported range
            let before: Vec<(i64, bool)> = [DAY_MIN - 1, DAY_MIN - 7, DAY_MIN - 40].into_iter().map(|d| (d, true)).collect();

            for (day, always) in crit.into_iter().map(|d| (d, false)).chain(before) {
                for sec in [0u32, 35_940, 46_800, 72_000, 86_370] {
                    k += 1;
                    if !always && k % every != 0 {
                        continue;
                    }
                    if always && sec != 35_940 && sec != 86_370 {
                        continue;
                    }
                    let t = datetime(day, sec);
                    let Ok(Some(nc)) = guarded(|| oh.next_change(t)) else { continue };
                    let d = nc - t;
                    if d > Duration::days(800) {
                        continue;
                    }
                    let m = Duration::minutes(1);
                    let h24 = Duration::hours(24);
                    for b in [d - m, d, d + m, d + h24 - m, d + h24, d + h24 + m, d / 2, d * 2, Duration::hours(36), d + Duration::hours(13)] {
                        if b < m {
                            continue;
                        }
                        if let Some(mut ev) = point_event(id + 1, src, &oh, &ctx, t, Some(b), &lim) {
                            id += 1;
                            ev["expr"] = expr_json.clone();
                            println!("{ev}");
                        }
                    }
                }
            }
        }
        return;
    }

    if mode == "sweep-range" || mode == "sweep-point" {
        // every expression of the hint-branch family x its critical dates (every `every`-th one, rotating with the
        // seed), with the long limits: open-ended streams / next_change whose changes may be many years apart
        let every = args.get_u64("every", 8) as usize;
        let mut k = seed as usize;

        let (part, parts) = (args.get_u64("part", 0) as usize, args.get_u64("parts", 1) as usize);

        let fam = sweep_family(seed);
        'outer: for (idx, src) in fam.iter().enumerate() {
            if idx % parts != part {
                continue;
            }
            let Ok(Ok(parsed)) = guarded(|| opening_hours_syntax::parse(src)) else { continue };
            let ctx = if src.contains("PH") || src.contains("SH") { Ctx::random(&mut rng) } else { Ctx::plain() };
            let Ok(Ok(oh)) = guarded(|| OpeningHours::parse(src)) else { continue };
            let oh = oh.with_context(ctx.context());
            let expr_json = astjson::expr(&parsed);

            // years written on a month or a date of the expression (`2020Dec`, `2022 Dec 20-Jan 10`): this is where such a range ends
            // for good and a hint may run off to the end of time. The critical days of these years are always asked, the others
            // every `every`-th, rotating with the seed.
            let mut anchored: Vec<i32> = Vec::new();
            for r in &parsed.rules {
                for md in &r.day_selector.monthday {
                    use opening_hours_syntax::rules::day::{Date, MonthdayRange};
                    match md {
                        MonthdayRange::Month { year: Some(y), .. } => anchored.push(i32::from(*y)),
                        MonthdayRange::Date { start, end } => {
                            for d in [&start.0, &end.0] {
                                match d {
                                    Date::Fixed { year: Some(y), .. } | Date::Easter { year: Some(y) } => anchored.push(i32::from(*y)),
                                    _ => {}
                                }
                            }
                        }
                        _ => {}
                    }
                }
            }
            anchored.retain(|y| (1901..9999).contains(y));

            for day in critical(&parsed, &ctx) {
                k += 1;
                let always = {
                    use chrono::Datelike;
                    let y = date_of_daynum(day).year();
                    anchored.len() <= 3 && anchored.iter().any(|a| *a == y || *a + 1 == y)
                };
                if k % every != 0 && !always {
                    continue;
                }
                work += opening_hours::verif::take_stats().schedule_at_calls;
                if work > work_budget {
                    eprintln!("work budget exhausted after {produced} sweep events");
                    break 'outer;
                }
                let t = datetime(day, *rng.pick(&[0u32, 43_200, 86_399, 30_600]));
                let (src_c, oh_c, ctx_c, long_c) = (src.to_string(), oh.clone(), ctx.clone(), long_lim.clone());
                let next_id = id + 1;
                let point = mode == "sweep-point";
                let end = datetime(DAY_MAX + 1, 0);
                let res = with_timeout(args.get_u64("event-timeout", 20), move || {
                    if point {
                        point_event(next_id, &src_c, &oh_c, &ctx_c, t, None, &long_c)
                    } else {
                        range_event(next_id, &src_c, &oh_c, &ctx_c, t, end, &long_c)
                    }
                });
                if let Some((Some(mut ev), w)) = res {
                    work += w;
                    id += 1;
                    produced += 1;
                    ev["expr"] = expr_json.clone();
                    println!("{ev}");
                }
            }
        }

        return;
    }

    while produced < n && attempts < n * 30 && timeouts < 6 {
        attempts += 1;
        work += opening_hours::verif::take_stats().schedule_at_calls;
        if work > work_budget {
            eprintln!("work budget exhausted after {produced} events");
            break;
        }
        let src: String = match rng.below(10) {
            _ if commented => crate::exprs::commented_expression(&mut rng),
            0..=6 if mode == "bounds" => rng.pick(BOUNDS_FAMILY).to_string(),
            0..=2 => rng.pick(HINT_FAMILY).to_string(),
            3 | 4 if !corp.is_empty() => rng.pick(&corp).clone(),
            _ => {
                let opts = GenOpts { corners: rng.chance(1, 6), ..GenOpts::default() };
                Gen { rng: &mut rng, opts }.expression()
            }
        };

        let Ok(Ok(parsed)) = guarded(|| opening_hours_syntax::parse(&src)) else { continue };
        let ctx = if src.contains("PH") || src.contains("SH") || rng.chance(1, 4) { Ctx::random(&mut rng) } else { Ctx::plain() };
        let Ok(Ok(oh)) = guarded(|| OpeningHours::parse(&src)) else { continue };
        let oh = oh.with_context(ctx.context());
        let crit = critical(&parsed, &ctx);
        let expr_json = astjson::expr(&parsed);

        for _ in 0..(1 + rng.below(3)) {
            if std::env::var("OHV_TRACE").is_ok() {
                eprintln!("expr {src:?}");
            }
            let mut t = if mode == "bounds" { pick_bound_instant(&mut rng) } else { pick_instant(&mut rng, &crit) };

            // half of the instants sit on / next to a boundary of that day's schedule
            if rng.chance(1, 2) {
                if let Ok(tiles) = guarded(|| oh.schedule_at(t.date()).into_iter().collect::<Vec<_>>()) {
                    if tiles.len() > 1 {
                        let b = rng.pick(&tiles[1..]).range.start.mins_from_midnight() as i64 * 60;
                        let delta = *rng.pick(&[-60, -1, 0, 0, 0, 1, 30, 59, 60]);
                        let sec = (b + delta).clamp(0, 86_399);
                        t = datetime(daynum(t.date()), sec as u32);
                    }
                }
            }

            let timeout = args.get_u64("event-timeout", 20);
            let (src_c, oh_c, ctx_c, mode_c) = (src.clone(), oh.clone(), ctx.clone(), mode.clone());
            let (lim_c, long_c) = (lim.clone(), long_lim.clone());
            let next_id = id + 1;
            // random choices are drawn here so that an abandoned event does not disturb the stream
            let mut sub = Rng::new(rng.next_u64());

            let res = with_timeout(timeout, move || {
                let (src, oh, ctx, mode, lim, long_lim) = (src_c, oh_c, ctx_c, mode_c, lim_c, long_c);
                let rng = &mut sub;
                let id = next_id - 1;
            match mode.as_str() {
                "range" => {
                    let long = rng.chance(1, long_every + 2);
                    let to = match rng.below(10) {
                        0 => t - Duration::minutes(rng.range(0, 3000)), // empty or inverted window
                        1 | 2 => t + Duration::minutes(rng.range(1, 3000)),
                        3 | 4 | 5 => t + Duration::days(rng.range(2, 500)) + Duration::seconds(rng.range(0, 86_399)),
                        _ => datetime(daynum(NaiveDate::from_ymd_opt(10_000, 1, 1).unwrap()) + rng.range(0, 3), 0), // open end
                    };
                    if std::env::var("OHV_TRACE").is_ok() {
                        eprintln!("  range {t} .. {to} long={long} ph={:?}", ctx.ph);
                    }
                    range_event(id + 1, &src, &oh, &ctx, t, to, if long { &long_lim } else { &lim })
                }
                "bounds" => {
                    if rng.chance(1, 5) {
                        // the same clamps under an interval-size bound
                        let b = match rng.below(3) {
                            0 => Duration::days(rng.range(1, 40)),
                            1 => Duration::days(366),
                            _ => Duration::hours(rng.range(25, 20_000)),
                        };
                        point_event(id + 1, &src, &oh, &ctx, t, Some(b), &lim)
                    } else if rng.chance(1, 2) {
                        point_event(id + 1, &src, &oh, &ctx, t, None, if rng.chance(1, long_every) { &long_lim } else { &lim })
                    } else {
                        let to = match rng.below(5) {
                            0 => pick_bound_instant(rng),
                            1 => t + Duration::days(rng.range(1, 900)),
                            2 => t + Duration::minutes(rng.range(1, 5000)),
                            _ => datetime(DAY_MAX + 1 + rng.range(0, 500), 0),
                        };
                        range_event(id + 1, &src, &oh, &ctx, t, to, &lim)
                    }
                }
                "point" => point_event(id + 1, &src, &oh, &ctx, t, None, if rng.chance(1, long_every) { &long_lim } else { &lim }),
                "bounded" => {
                    let b = match rng.below(6) {
                        0 => Duration::days(1),
                        1 => Duration::days(2) + Duration::hours(rng.range(0, 23)),
                        2 => Duration::days(rng.range(3, 40)),
                        3 => Duration::days(366),
                        4 => Duration::days(rng.range(300, 11_000)),
                        _ => Duration::minutes(rng.range(1440, 200_000)),
                    };
                    point_event(id + 1, &src, &oh, &ctx, t, Some(b), if rng.chance(1, long_every) { &long_lim } else { &lim })
                }
                other => panic!("unknown mode {other}"),
            }
            });

            let ev = match res {
                Some((ev, w)) => {
                    // one very expensive event (a never-changing expression walked to year 9999) does not use up the whole budget
                    work += w.min(work_budget / 20);
                    ev
                }
                None => {
                    timeouts += 1;
                    eprintln!("event abandoned after {timeout}s: {src:?}");
                    None
                }
            };

            if let Some(mut ev) = ev {
                id += 1;
                produced += 1;
                ev["expr"] = expr_json.clone();

                if corrupt > 0 && id == corrupt {
                    // self-test: falsify one observed field
                    if ev.get("next_change_b").is_some() {
                        ev["next_change_b"] = json!([ev["t"][0].as_i64().unwrap() + 12_345, 60]);
                    } else if ev.get("intervals").is_some() {
                        let from = ev["from"].clone();
                        let ivs = ev["intervals"].as_array_mut().unwrap();
                        if let Some(iv) = ivs.first_mut() {
                            let k = iv[2].as_str().unwrap().to_string();
                            iv[2] = json!(if k == "open" { "closed" } else { "open" });
                        } else {
                            ivs.push(json!([from, [from[0].as_i64().unwrap() + 1, 0], "open", []]));
                        }
                    } else if ev.get("state").is_some() {
                        let k = ev["state"].as_str().unwrap().to_string();
                        ev["state"] = json!(if k == "open" { "closed" } else { "open" });
                    }
                }

                println!("{ev}");
            }
        }
    }
}

/// Development helper: `ohv debug iter <expr> <from_day> <from_sec> <to_day> <n> [ph days...]`
pub fn debug(args: &Args) {
    let src = &args.pos[2];
    let from = datetime(args.pos[3].parse().unwrap(), args.pos[4].parse().unwrap());
    let to = datetime(args.pos[5].parse().unwrap(), 0);
    let n: usize = args.pos[6].parse().unwrap();
    let ctx = Ctx { ph: args.pos[7..].iter().map(|s| s.parse().unwrap()).collect(), sh: vec![], synthetic: false };
    let oh = OpeningHours::parse(src).unwrap().with_context(ctx.context());
    let t0 = std::time::Instant::now();

    for (i, iv) in oh.iter_range(from, to).take(n).enumerate() {
        let st = opening_hours::verif::take_stats();
        eprintln!("{i}: {} .. {} {:?}  ({} schedule_at, {} jumps, {:?}) {:?}", iv.range.start, iv.range.end, iv.kind, st.schedule_at_calls, st.jumps, st.long_jumps.first(), t0.elapsed());
    }
}
