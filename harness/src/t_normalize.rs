//! C07 / C13: normalisation. Event = (AST e, AST n1 = normalize(e), AST n2 = normalize(n1),
//! determinism flags, reparse of the printed normal form, and the run-length encoded kind-only
//! day tilings of e and n1 over whole sample years chosen from the year cut points of both).

use std::collections::BTreeSet;

use chrono::NaiveDate;
use opening_hours::OpeningHours;
use opening_hours_syntax::rules::OpeningHoursExpression;
use serde_json::{json, Value};

use crate::astjson::{self, date_of_daynum, daynum};
use crate::ctxs::{Ctx, SynthLocale};
use crate::exprs::{corpus, Gen, GenOpts};
use crate::probes::probe_days;
use crate::rng::Rng;
use crate::util::{guarded, read_ndjson};
use crate::Args;

type Oh = OpeningHours<SynthLocale>;

fn kinds_tiling(oh: &Oh, n: i64) -> Value {
    Value::Array(
        oh.schedule_at(date_of_daynum(n))
            .into_iter()
            .map(|tr| json!([tr.range.start.mins_from_midnight(), tr.range.end.mins_from_midnight(), tr.kind.as_str()]))
            .collect(),
    )
}

fn runs(oh: &Oh, lo: i64, hi: i64) -> Vec<Value> {
    let mut out: Vec<(i64, i64, Value)> = Vec::new();

    for d in lo..=hi {
        let til = kinds_tiling(oh, d);
        match out.last_mut() {
            Some((_, last, t)) if *t == til && *last == d - 1 => *last = d,
            _ => out.push((d, d, til)),
        }
    }

    out.into_iter().map(|(a, b, t)| json!([a, b, t])).collect()
}

fn is_leap(y: i32) -> bool {
    NaiveDate::from_ymd_opt(y, 2, 29).is_some()
}

/// Whole years to compare: for every segment between year cut points of both expressions, its
/// first and last year, the year after the first, and its first leap year.
fn sample_years(exprs: [&OpeningHoursExpression; 2], rng: &mut Rng) -> Vec<i32> {
    let mut cuts: BTreeSet<i32> = [1900, 10_000].into_iter().collect();

    for e in exprs {
        for r in &e.rules {
            for y in &r.day_selector.year {
                cuts.insert(i32::from(y.range.start().0));
                cuts.insert(i32::from(y.range.end().0) + 1);
            }
        }
    }

    let cuts: Vec<i32> = cuts.into_iter().filter(|y| (1900..=10_000).contains(y)).collect();
    let mut years: BTreeSet<i32> = BTreeSet::new();

    for w in cuts.windows(2) {
        let (a, b) = (w[0], w[1] - 1);
        years.extend([a, b, (a + 1).min(b)]);
        if let Some(l) = (a..=b.min(a + 8)).find(|y| is_leap(*y)) {
            years.insert(l);
        }
    }

    // standard years with week 53 / leap day, always looked at
    years.extend([2020, 2021, 2024, 2026]);
    let mut years: Vec<i32> = years.into_iter().collect();

    while years.len() > 10 {
        let i = rng.below(years.len() as u64) as usize;
        years.remove(i);
    }

    years
}

pub fn event(id: u64, src: &str, ctx: &Ctx, rng: &mut Rng) -> Option<Value> {
    let e: OpeningHoursExpression = guarded(|| opening_hours_syntax::parse(src)).ok()?.ok()?;
    let oh = guarded(|| OpeningHours::parse(src)).ok()?.ok()?.with_context(ctx.context());
    let mut ev = json!({"id": id, "src": src, "ctx": ctx.json(), "expr": astjson::expr(&e)});

    let n1 = match guarded(|| e.clone().normalize()) {
        Ok(n) => n,
        Err(p) => {
            ev["panic"] = json!(p);
            return Some(ev);
        }
    };
    let n2 = guarded(|| n1.clone().normalize()).ok()?;
    let oh_n = guarded(|| oh.normalize()).ok()?;

    // determinism: a clone, another thread, the evaluator-level normalize
    let from_clone = e.clone().normalize() == n1;
    let e_thread = e.clone();
    let from_thread = std::thread::spawn(move || e_thread.normalize()).join().map(|n| n == n1).unwrap_or(false);
    let printed = n1.to_string();
    let same_as_oh = oh_n.to_string() == printed;
    let reparsed = guarded(|| opening_hours_syntax::parse(&printed));

    ev["n1"] = astjson::expr(&n1);
    ev["n2"] = astjson::expr(&n2);
    ev["printed"] = json!(printed);
    ev["deterministic"] = json!(from_clone && from_thread && same_as_oh);
    ev["reparse"] = match &reparsed {
        Ok(Ok(r)) => astjson::expr(r),
        Ok(Err(err)) => json!({"error": err.to_string()}),
        Err(p) => json!({"error": format!("panic: {p}")}),
    };
    // the reparsed normal form may join several comments into one: compare its normal form's string
    ev["reparse_same_string"] = json!(matches!(&reparsed, Ok(Ok(r)) if r.to_string() == printed));

    // meaning: whole sample years + probe days of both expressions
    let mut windows: Vec<(i64, i64)> = sample_years([&e, &n1], rng)
        .into_iter()
        .map(|y| (daynum(NaiveDate::from_ymd_opt(y, 1, 1).unwrap()), daynum(NaiveDate::from_ymd_opt(y, 12, 31).unwrap())))
        .collect();

    let mut days = probe_days(&e, ctx, rng, 10);
    days.extend(probe_days(&n1, ctx, rng, 6));
    days.sort();
    days.dedup();
    windows.extend(days.into_iter().filter(|n| (-30_000..2_940_000).contains(n)).map(|n| (n, n + 1)));

    let res = guarded(|| {
        let mut r1 = Vec::new();
        let mut r2 = Vec::new();
        for (lo, hi) in &windows {
            r1.push(Value::Array(runs(&oh, *lo, *hi)));
            r2.push(Value::Array(runs(&oh_n, *lo, *hi)));
        }
        (r1, r2)
    });

    match res {
        Ok((r1, r2)) => {
            ev["windows"] = json!(windows);
            ev["runs1"] = json!(r1);
            ev["runs2"] = json!(r2);
        }
        Err(p) => ev["panic"] = json!(p),
    }

    Some(ev)
}

pub fn record(args: &Args) {
    let seed = args.get_u64("seed", 1);
    let mut rng = Rng::new(seed);
    let n = args.get_u64("n", 300);
    let corrupt = args.get_u64("corrupt", 0);
    let skip_corpus = args.get_u64("skip-corpus", 0) == 1;
    let mut sources: Vec<String> = if skip_corpus { vec![] } else { corpus() };

    if let Some(path) = args.opt.get("cases") {
        for c in read_ndjson(path) {
            if c["expect"] == "accept" {
                sources.push(c["text"].as_str().unwrap().to_string());
            }
        }
    }

    for _ in 0..n {
        // mostly canonical rules (what the paving handles), with overlapping ranges in 1-3
        // dimensions, mixed with non-canonical ones
        let opts = GenOpts { corners: rng.chance(1, 8), canonical_bias: rng.chance(4, 5), events: rng.chance(1, 4), holidays: rng.chance(1, 4) };
        sources.push(Gen { rng: &mut rng, opts }.expression());
    }

    let mut id = 0u64;

    for src in sources {
        let ctx = if src.contains("PH") || src.contains("SH") || rng.chance(1, 6) { Ctx::random(&mut rng) } else { Ctx::plain() };

        if let Some(mut ev) = event(id + 1, &src, &ctx, &mut rng) {
            id += 1;

            if corrupt > 0 && id == corrupt && ev.get("runs2").is_some() {
                let k = ev["runs2"][0][0][2][0][2].as_str().unwrap().to_string();
                ev["runs2"][0][0][2][0][2] = json!(if k == "open" { "closed" } else { "open" });
            }

            println!("{ev}");
        }
    }
}

/// Replay the rule sequences enumerated by MC_Normalize: the real normal form (printed) is
/// compared with the one the paving model computes.
pub fn replay(args: &Args) {
    let cases = read_ndjson(&args.pos[2]);
    let mut rep = crate::util::Report::new();
    let mut exact = 0u64;

    for c in &cases {
        let text = c["text"].as_str().unwrap();
        rep.evaluations += 1;

        match guarded(|| opening_hours_syntax::parse(text).map(|e| e.normalize().to_string())) {
            Ok(Ok(got)) => {
                if got == c["normal"].as_str().unwrap() {
                    exact += 1;
                } else {
                    println!("DIFF {}", json!({"text": text, "model": c["normal"], "real": got}));
                }
            }
            Ok(Err(e)) => rep.mismatch(json!({"text": text, "error": e.to_string()})),
            Err(p) => rep.mismatch(json!({"text": text, "panic": p})),
        }
    }

    rep.nontrivial = cases.iter().filter(|c| c["normal"] != c["text"]).count() as u64;
    println!(
        "SUMMARY {}",
        json!({"evaluations": rep.evaluations, "mismatches": rep.mismatches, "nontrivial": rep.nontrivial,
               "behaviours": cases.len(), "extra": {"exact": exact}})
    );
}
