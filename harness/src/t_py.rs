//! C12, Rust side: for every case of Gen_PyBinding that constructs, evaluate the context the
//! specification names (holidays source, locale kind) with the Rust core, on the same datetimes
//! the Python driver uses, in the same output shape.

use std::str::FromStr;

use chrono::{Datelike, DateTime, Duration, NaiveDate, NaiveDateTime, TimeZone};
use chrono_tz::Tz;
use opening_hours::localization::{Coordinates, Country, Localize, NoLocation, TzLocation};
use opening_hours::{Context, ContextHolidays, DateTimeRange, OpeningHours, DATE_END};
use serde_json::{json, Value};

use crate::util::{guarded, read_ndjson};
use crate::Args;

fn coords_of(name: &str) -> Option<Coordinates> {
    match name {
        "paris" => Coordinates::new(48.8535, 2.34839),
        "tokyo" => Coordinates::new(35.6762, 139.6503),
        "ocean" => Coordinates::new(-45.0, -140.0),
        "pole" => Coordinates::new(90.0, 0.0),
        "antimeridian" => Coordinates::new(10.0, 180.0),
        _ => None,
    }
}

fn wall(n: NaiveDateTime) -> String {
    n.format("%Y-%m-%dT%H:%M:%S").to_string()
}

fn naive_json(n: NaiveDateTime) -> Value {
    json!({"wall": wall(n), "tz": "naive", "utc": -1})
}

fn aware_json(d: &DateTime<Tz>) -> Value {
    json!({"wall": wall(d.naive_local()), "tz": d.timezone().name(), "utc": d.timestamp()})
}

/// Result datetimes of a naive evaluation get the zone of the input when it has one.
fn attach(n: NaiveDateTime, input_tz: Option<Tz>) -> Value {
    match input_tz {
        Some(tz) => aware_json(&TzLocation::new(tz).datetime(n)),
        None => naive_json(n),
    }
}

fn end_or_null(v: Value, is_end: bool) -> Value {
    if is_end { Value::Null } else { v }
}

fn eval_naive(oh: &OpeningHours<NoLocation>, t: NaiveDateTime, input_tz: Option<Tz>, skip_window: bool) -> Value {
    let st = oh.state(t);
    // the window with differently given bounds: both are read on their own wall clock; results carry the zone of the start, else of the end (UTC)
    let mixed_tz = input_tz.or(Some(chrono_tz::UTC));
    let mixed: Vec<Value> = if t.date().year() >= 9999 { Vec::new() } else {
        oh.iter_range(t, t + Duration::days(3)).take(12)
            .map(|r| json!([attach(r.range.start, mixed_tz), end_or_null(attach(r.range.end, mixed_tz), r.range.end == DATE_END),
                            r.kind.as_str(), r.comments.iter().map(|c| c.to_string()).collect::<Vec<_>>()]))
            .collect()
    };
    let n = oh.normalize();
    let ivs = |it: Vec<DateTimeRange<NaiveDateTime>>| -> Vec<Value> {
        it.iter()
            .map(|r| {
                json!([attach(r.range.start, input_tz), end_or_null(attach(r.range.end, input_tz), r.range.end == DATE_END),
                       r.kind.as_str(), r.comments.iter().map(|c| c.to_string()).collect::<Vec<_>>()])
            })
            .collect()
    };
    json!({
        "state": st.as_str(),
        "flags": [oh.is_open(t), oh.is_closed(t), oh.is_unknown(t)],
        "next_change": oh.next_change(t).map(|n| attach(n, input_tz)).unwrap_or(Value::Null),
        "intervals": ivs(oh.iter_from(t).take(4).collect()),
        "intervals_bounded": if skip_window { Vec::new() } else { ivs(oh.iter_range(t, t + Duration::days(3)).take(12).collect()) },
        // the object returned by Python's normalize() must behave like the core's normal form under the same context, and an
        // iterator consumed between other calls must give the elements of the stream (Session.tla)
        "norm": {"state": n.state(t).as_str(), "next_change": n.next_change(t).map(|x| attach(x, input_tz)).unwrap_or(Value::Null),
                 "intervals": ivs(n.iter_from(t).take(3).collect())},
        "interleaved": ivs(oh.iter_from(t).take(4).collect()),
        "intervals_mixed": mixed,
    })
}

fn eval_aware(oh: &OpeningHours<TzLocation<Tz>>, t: DateTime<Tz>, end: DateTime<Tz>, end_mixed: Option<DateTime<Tz>>, skip_window: bool) -> Value {
    let st = oh.state(t);
    let n = oh.normalize();
    let ivs = |it: Vec<DateTimeRange<DateTime<Tz>>>| -> Vec<Value> {
        it.iter()
            .map(|r| {
                json!([aware_json(&r.range.start), end_or_null(aware_json(&r.range.end), r.range.end.naive_local() == DATE_END),
                       r.kind.as_str(), r.comments.iter().map(|c| c.to_string()).collect::<Vec<_>>()])
            })
            .collect()
    };
    json!({
        "state": st.as_str(),
        "flags": [oh.is_open(t), oh.is_closed(t), oh.is_unknown(t)],
        "next_change": oh.next_change(t).map(|d| aware_json(&d)).unwrap_or(Value::Null),
        "intervals": ivs(oh.iter_from(t).take(4).collect()),
        "intervals_bounded": if skip_window { Vec::new() } else { ivs(oh.iter_range(t, end).take(12).collect()) },
        "norm": {"state": n.state(t).as_str(), "next_change": n.next_change(t).map(|d| aware_json(&d)).unwrap_or(Value::Null),
                 "intervals": ivs(n.iter_from(t).take(3).collect())},
        "interleaved": ivs(oh.iter_from(t).take(4).collect()),
        "intervals_mixed": match end_mixed { Some(e) => ivs(oh.iter_range(t, e).take(12).collect()), None => Vec::new() },
    })
}

pub fn core(args: &Args) {
    for case in read_ndjson(&args.pos[1]) {
        let mut obs = json!({"id": case["id"]});
        let expr = case["expr"].as_str().unwrap();
        obs["parse_ok"] = json!(guarded(|| opening_hours_syntax::parse(expr).is_ok()).unwrap_or(false));

        if case["outcome"] != "ok" {
            println!("{obs}");
            continue;
        }

        let res = guarded(|| {
            let coords = coords_of(case["coords"].as_str().unwrap());
            let holidays: ContextHolidays = match case["holidays"].as_str().unwrap() {
                "country" => Country::from_str(case["country"].as_str().unwrap()).unwrap().holidays(),
                "coords" => Context::from_coords(coords.unwrap()).holidays,
                _ => ContextHolidays::default(),
            };
            let base = OpeningHours::parse(expr).unwrap();
            let tz: Option<Tz> = case["tz"].as_str().filter(|s| *s != "none").map(|s| s.parse().unwrap());
            let locale: Option<TzLocation<Tz>> = match case["locale"].as_str().unwrap() {
                "tz" => Some(TzLocation::new(tz.unwrap())),
                "tz+coords" => Some(TzLocation::new(tz.unwrap()).with_coords(coords.unwrap())),
                "coords" => Some(TzLocation::from_coords(coords.unwrap())),
                _ => None,
            };
            let mut out = json!({"str": base.to_string(), "normalize_str": base.normalize().to_string()});
            out["ctx_zone"] = json!(locale.as_ref().map(|l| l.get_timezone().name()).unwrap_or("naive"));
            let mut calls = Vec::new();

            for d in case["datetimes"].as_array().unwrap() {
                let naive = NaiveDateTime::parse_from_str(d["wall"].as_str().unwrap(), "%Y-%m-%dT%H:%M:%S").unwrap();
                let input_tz: Option<Tz> = d["tz"].as_str().filter(|s| *s != "naive").map(|s| s.parse().unwrap());
                // the driver cannot write the end of a 3-day window starting in the last days of 9999 as a Python datetime
                let skip_window = naive >= NaiveDate::from_ymd_opt(9999, 12, 29).unwrap().and_hms_opt(0, 0, 0).unwrap();

                let mut rec = match &locale {
                    None => {
                        // no location: evaluated on the wall clock of the input, results carry the input's zone
                        let oh = base.clone().with_context(Context::default().with_holidays(holidays.clone()));
                        eval_naive(&oh, naive, input_tz, skip_window)
                    }
                    Some(loc) => {
                        let oh = base.clone().with_context(Context::default().with_holidays(holidays.clone()).with_locale(loc.clone()));
                        let t: DateTime<Tz> = match input_tz {
                            Some(z) => z.from_local_datetime(&naive).earliest().unwrap().with_timezone(loc.get_timezone()),
                            // a naive input is a wall-clock time of the context zone
                            None => loc.datetime(naive),
                        };
                        // the driver adds three days on the wall clock of its input (Python datetime arithmetic)
                        let later = naive + Duration::days(3);
                        let end: DateTime<Tz> = match input_tz {
                            Some(z) => z.from_local_datetime(&later).earliest().unwrap_or_else(|| z.from_utc_datetime(&later)).with_timezone(loc.get_timezone()),
                            None => loc.datetime(later),
                        };
                        // the other bound of the mixed window: naive (= wall clock of the context zone) for an aware input, UTC for a naive one
                        let end_mixed: Option<DateTime<Tz>> = if naive.date().year() >= 9999 { None } else {
                            Some(match input_tz {
                                Some(_) => loc.datetime(later),
                                None => chrono_tz::UTC.from_utc_datetime(&later).with_timezone(loc.get_timezone()),
                            })
                        };
                        eval_aware(&oh, t, end, end_mixed, skip_window)
                    }
                };

                rec["dt"] = d.clone();
                calls.push(rec);
            }

            out["calls"] = Value::Array(calls);
            out
        });

        match res {
            Ok(v) => {
                for (k, val) in v.as_object().unwrap() {
                    obs[k] = val.clone();
                }
            }
            Err(p) => obs["panic"] = json!(p),
        }

        println!("{obs}");
    }
}
