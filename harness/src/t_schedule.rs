//! C14: Schedule against Schedule.tla.

use std::ops::Range;
use std::sync::Arc;

use opening_hours::schedule::{Schedule, TimeRange};
use opening_hours_syntax::sorted_vec::UniqueSortedVec;
use opening_hours_syntax::{ExtendedTime, RuleKind};
use serde_json::{json, Value};

use crate::rng::Rng;
use crate::util::{guarded, read_ndjson, Report};
use crate::Args;

pub fn kind_str(k: RuleKind) -> &'static str {
    k.as_str()
}

pub fn kind_of(s: &str) -> RuleKind {
    match s {
        "open" => RuleKind::Open,
        "closed" => RuleKind::Closed,
        "unknown" => RuleKind::Unknown,
        other => panic!("bad kind {other}"),
    }
}

fn et(m: i64) -> ExtendedTime {
    ExtendedTime::from_mins_from_midnight(m as u16).expect("time in 00:00..48:00")
}

fn comments_of(v: &Value) -> UniqueSortedVec<Arc<str>> {
    v.as_array()
        .unwrap()
        .iter()
        .map(|c| Arc::from(c.as_str().unwrap()))
        .collect::<Vec<Arc<str>>>()
        .into()
}

pub fn range_json(tr: &TimeRange) -> Value {
    json!([
        tr.range.start.mins_from_midnight(),
        tr.range.end.mins_from_midnight(),
        kind_str(tr.kind),
        tr.comments.iter().map(|c| c.to_string()).collect::<Vec<_>>()
    ])
}

pub fn repr_json(s: &Schedule) -> Value {
    Value::Array(s.verif_ranges().iter().map(range_json).collect())
}

pub fn tiling_json(s: &Schedule) -> Value {
    Value::Array(s.clone().into_iter().map(|tr| range_json(&tr)).collect())
}

fn comments_sorted(v: &Value) -> bool {
    v.as_array().unwrap().iter().all(|r| {
        let c: Vec<&str> = r[3].as_array().unwrap().iter().map(|x| x.as_str().unwrap()).collect();
        c.windows(2).all(|w| w[0] < w[1])
    })
}

/// Build the schedule whose representation is given (coalesced, valid) through the public API:
/// one single-range schedule per range, added left to right.
fn construct(v: &Value) -> Schedule {
    let mut s = Schedule::new();

    for r in v.as_array().unwrap() {
        let single = Schedule::from_ranges(
            [et(r[0].as_i64().unwrap())..et(r[1].as_i64().unwrap())],
            kind_of(r[2].as_str().unwrap()),
            &comments_of(&r[3]),
        );
        s = s.addition(single);
    }

    s
}

/// Same comment sets (TLC prints sets in its own order).
fn same_repr(a: &Value, b: &Value) -> bool {
    let norm = |v: &Value| -> Vec<(i64, i64, String, Vec<String>)> {
        v.as_array()
            .unwrap()
            .iter()
            .map(|r| {
                let mut c: Vec<String> =
                    r[3].as_array().unwrap().iter().map(|x| x.as_str().unwrap().to_string()).collect();
                c.sort();
                (r[0].as_i64().unwrap(), r[1].as_i64().unwrap(), r[2].as_str().unwrap().to_string(), c)
            })
            .collect()
    };
    norm(a) == norm(b)
}

/// Replay every transition printed by MC_Schedule (Gen = TRUE). A transition whose real result
/// is exactly TLC's is accepted at once; any other one is written as a DIFF event and judged by
/// the laws (Trace_Schedule), because the property does not fix the representation.
pub fn replay(args: &Args) {
    let lines = read_ndjson(&args.pos[2]);
    let mut rep = Report::new();
    let mut exact = 0u64;
    let mut diffs = 0u64;

    for line in &lines {
        rep.evaluations += 1;
        let op = line["op"].as_str().unwrap();

        let res = guarded(|| match op {
            "from_ranges" => {
                let ranges: Vec<Range<ExtendedTime>> = line["ranges"]
                    .as_array()
                    .unwrap()
                    .iter()
                    .map(|p| et(p[0].as_i64().unwrap())..et(p[1].as_i64().unwrap()))
                    .collect();
                let r = Schedule::from_ranges(ranges, kind_of(line["k"].as_str().unwrap()), &comments_of(&line["c"]));
                (json!({"op": "from_ranges", "ranges": line["ranges"], "k": line["k"], "c": line["c"]}), r)
            }
            "add_right" | "add_left" => {
                let s = construct(&line["s"]);
                let t = construct(&line["t"]);

                if !same_repr(&repr_json(&s), &line["s"]) || !same_repr(&repr_json(&t), &line["t"]) {
                    panic!("operand cannot be rebuilt through the public API");
                }

                let (a, b) = if op == "add_right" { (s, t) } else { (t, s) };
                let ev = json!({"op": "add", "a": repr_json(&a), "b": repr_json(&b)});
                (ev, a.addition(b))
            }
            other => panic!("unknown op {other}"),
        });

        // iterating the result is part of the behaviour under test: a panic there is data
        let res = res.and_then(|(ev, r)| guarded(|| (repr_json(&r), tiling_json(&r))).map(|(repr, til)| (ev, repr, til)));

        match res {
            Ok((mut ev, repr, til)) => {

                if same_repr(&repr, &line["r"]) && same_repr(&til, &line["til"]) {
                    exact += 1;
                } else {
                    diffs += 1;
                    ev["r"] = repr;
                    ev["sorted_comments"] = json!(comments_sorted(&ev["r"]) && comments_sorted(&til));
                    ev["til"] = til;
                    println!("DIFF {}", json!({"chain": [ev], "expected": line}));
                }
            }
            Err(p) => rep.mismatch(json!({"case": line, "panic": p})),
        }
    }

    rep.nontrivial = lines.len() as u64;
    println!(
        "SUMMARY {}",
        json!({"evaluations": rep.evaluations, "mismatches": rep.mismatches, "nontrivial": rep.nontrivial,
               "behaviours": lines.len(), "extra": {"exact": exact, "diffs": diffs}})
    );
}

fn random_ranges(rng: &mut Rng, anchors: &[i64]) -> Vec<(i64, i64)> {
    let n = match rng.below(6) {
        0 => 0,
        1 | 2 => 1,
        3 => 2,
        4 => 3,
        _ => 2 + rng.below(4),
    };

    (0..n)
        .map(|_| {
            let pick = |rng: &mut Rng| -> i64 {
                if rng.chance(2, 3) {
                    *rng.pick(anchors)
                } else {
                    rng.range(0, 1440)
                }
            };
            let (a, b) = (pick(rng), pick(rng));
            // mostly proper ranges, sometimes empty or inverted
            if a > b && rng.chance(4, 5) { (b, a) } else { (a, b) }
        })
        .collect()
}

fn random_comments(rng: &mut Rng) -> Vec<String> {
    let pool = ["a", "b", "c", "Z"];
    let mut c: Vec<String> = pool.iter().filter(|_| rng.chance(1, 4)).map(|s| s.to_string()).collect();
    if rng.chance(1, 8) {
        c.push(c.first().cloned().unwrap_or_else(|| "a".into())); // duplicate in the input
    }
    c
}

/// Random histories: schedules are built with from_ranges and combined by additions in both
/// operand orders; every call is logged with its operands, result, tiling.
pub fn record(args: &Args) {
    let mut rng = Rng::new(args.get_u64("seed", 1));
    let n = args.get_u64("n", 1000);
    let corrupt = args.get_u64("corrupt", 0);

    for line in 0..n {
        // a small set of anchor minutes makes adjacent / nested / identical bounds likely
        let mut anchors: Vec<i64> = vec![0, 1440];
        for _ in 0..(2 + rng.below(5)) {
            anchors.push(rng.range(0, 1440));
        }

        let mut chain: Vec<Value> = Vec::new();
        let mut pool: Vec<Schedule> = Vec::new();

        let log = |chain: &mut Vec<Value>, mut ev: Value, r: &Schedule| {
            let til = tiling_json(r);
            ev["r"] = repr_json(r);
            ev["sorted_comments"] = json!(comments_sorted(&ev["r"]) && comments_sorted(&til));
            ev["til"] = til;
            chain.push(ev);
        };

        let steps = 1 + rng.below(8);

        let outcome = guarded(std::panic::AssertUnwindSafe(|| {
        for _ in 0..steps {
            if pool.len() < 2 || rng.chance(1, 2) {
                let ranges = random_ranges(&mut rng, &anchors);
                let kind = *rng.pick(&[RuleKind::Open, RuleKind::Closed, RuleKind::Unknown]);
                let comments = random_comments(&mut rng);
                let cvec: UniqueSortedVec<Arc<str>> =
                    comments.iter().map(|c| Arc::from(c.as_str())).collect::<Vec<Arc<str>>>().into();
                let r = Schedule::from_ranges(ranges.iter().map(|(a, b)| et(*a)..et(*b)), kind, &cvec);
                let ev = json!({"op": "from_ranges", "ranges": ranges, "k": kind_str(kind),
                                "c": cvec.iter().map(|c| c.to_string()).collect::<Vec<_>>()});
                log(&mut chain, ev, &r);
                pool.push(r);
            } else {
                let a = rng.pick(&pool).clone();
                let b = if rng.chance(1, 10) { Schedule::new() } else { rng.pick(&pool).clone() };
                let ev = json!({"op": "add", "a": repr_json(&a), "b": repr_json(&b)});
                let r = a.addition(b);
                log(&mut chain, ev, &r);
                pool.push(r);
            }
        }

        }));

        if let Err(p) = outcome {
            // a panic of the code under test is data: an event no law explains
            chain.push(json!({"op": "panic", "panic": p, "r": [], "til": [], "sorted_comments": true}));
        }

        if corrupt > 0 && line + 1 == corrupt {
            // falsify one recorded result: flip the kind of the first tile of the last event
            let last = chain.iter_mut().rev().find(|e| e["op"] != "panic").unwrap();
            let k = last["til"][0][2].as_str().unwrap().to_string();
            last["til"][0][2] = json!(if k == "open" { "unknown" } else { "open" });
        }

        println!("{}", json!({"chain": chain}));
    }
}
