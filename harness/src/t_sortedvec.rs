//! C20: UniqueSortedVec against SortedVec.tla.

use opening_hours_syntax::sorted_vec::UniqueSortedVec;
use serde_json::{json, Value};

use crate::rng::Rng;
use crate::util::{guarded, read_json, Report};
use crate::Args;

fn ints(v: &Value) -> Vec<i64> {
    v.as_array().unwrap().iter().map(|x| x.as_i64().unwrap()).collect()
}

fn mask_of(v: &[i64]) -> usize {
    v.iter().fold(0usize, |m, x| m | (1 << *x))
}

pub fn replay(args: &Args) {
    let tables = read_json(&args.pos[2]);
    let mut rep = Report::new();

    // From<Vec>: every vector over 0..3 of length <= 6
    let mut vectors: Vec<(Vec<i64>, UniqueSortedVec<i64>)> = Vec::new();

    for case in tables["from_vec"].as_array().unwrap() {
        let v = ints(&case[0]);
        let exp = ints(&case[1]);
        rep.evaluations += 1;

        match guarded(|| UniqueSortedVec::from(v.clone())) {
            Ok(got) => {
                if got.as_slice() != exp.as_slice() {
                    rep.mismatch(json!({"op": "from", "v": v, "expected": exp, "got": got.as_slice()}));
                }
                vectors.push((v, got));
            }
            Err(p) => rep.mismatch(json!({"op": "from", "v": v, "panic": p})),
        }
    }

    // union: expected table over all pairs of subsets of 0..5
    let union: Vec<Vec<Vec<i64>>> = tables["union"]
        .as_array()
        .unwrap()
        .iter()
        .map(|row| row.as_array().unwrap().iter().map(ints).collect())
        .collect();

    let subsets: Vec<Vec<i64>> = (0..64usize)
        .map(|m| (0..6).filter(|i| m >> i & 1 == 1).collect())
        .collect();

    let mut branches = std::collections::BTreeMap::new();

    for (a, x) in subsets.iter().enumerate() {
        for (b, y) in subsets.iter().enumerate() {
            rep.evaluations += 1;
            *branches.entry(tables["branch"][a][b].as_str().unwrap().to_string()).or_insert(0u64) += 1;
            let ux = UniqueSortedVec::from(x.clone());
            let uy = UniqueSortedVec::from(y.clone());

            match guarded(|| ux.union(uy)) {
                Ok(got) if got.as_slice() == union[a][b].as_slice() => {}
                Ok(got) => rep.mismatch(json!({"op": "union", "x": x, "y": y, "expected": union[a][b], "got": got.as_slice()})),
                Err(p) => rep.mismatch(json!({"op": "union", "x": x, "y": y, "panic": p})),
            }
        }
    }

    // union of all pairs of *vectors* (through From), expected by table lookup on their sets
    for (vx, ux) in &vectors {
        for (vy, uy) in &vectors {
            rep.evaluations += 1;
            let exp = &union[mask_of(vx)][mask_of(vy)];
            let got = ux.clone().union(uy.clone());

            if got.as_slice() != exp.as_slice() {
                rep.mismatch(json!({"op": "union_vec", "x": vx, "y": vy, "expected": exp, "got": got.as_slice()}));
            }
        }
    }

    // long operands chosen after the structure of the merge (runs around the powers of two, deep interleavings): both operand
    // orders, sorted and reversed input vectors
    if let Some(path) = args.opt.get("long") {
        for case in read_json(path).as_array().unwrap() {
            let (a, b, u) = (ints(&case["a"]), ints(&case["b"]), ints(&case["u"]));
            let rev = |v: &Vec<i64>| v.iter().rev().copied().collect::<Vec<_>>();
            for (x, y) in [(a.clone(), b.clone()), (b.clone(), a.clone()), (rev(&a), b.clone())] {
                rep.evaluations += 1;
                match guarded(|| UniqueSortedVec::from(x.clone()).union(UniqueSortedVec::from(y.clone()))) {
                    Ok(got) if got.as_slice() == u.as_slice() => {}
                    Ok(got) => rep.mismatch(json!({"op": "union_long", "x_len": x.len(), "y_len": y.len(), "x_first": x.first(), "y_first": y.first(),
                        "expected_len": u.len(), "got_len": got.as_slice().len(),
                        "first_difference": got.as_slice().iter().zip(u.iter()).position(|(g, e)| g != e)})),
                    Err(p) => rep.mismatch(json!({"op": "union_long", "x_len": x.len(), "y_len": y.len(), "panic": p})),
                }
            }
        }
    }

    // contains / find_first_following for every element -1..6
    for (a, x) in subsets.iter().enumerate() {
        let ux = UniqueSortedVec::from(x.clone());

        for e in 0..8usize {
            let elt = e as i64 - 1;
            rep.evaluations += 2;
            let exp_c = tables["contains"][a][e].as_bool().unwrap();
            let exp_f = tables["first_following"][a][e].as_i64().unwrap();

            if ux.contains(&elt) != exp_c {
                rep.mismatch(json!({"op": "contains", "x": x, "e": elt, "expected": exp_c}));
            }

            let got_f = ux.find_first_following(&elt).copied().unwrap_or(-1);

            if got_f != exp_f {
                rep.mismatch(json!({"op": "first_following", "x": x, "e": elt, "expected": exp_f, "got": got_f}));
            }
        }
    }

    rep.nontrivial = rep.evaluations;
    rep.finish(json!({"branches": branches}));
}

fn random_vec(rng: &mut Rng) -> Vec<i64> {
    let len = match rng.below(4) {
        0 => rng.below(3),
        1 => rng.below(8),
        _ => rng.below(24),
    };
    let span = *rng.pick(&[3i64, 10, 40, 1000]);
    (0..len).map(|_| rng.range(0, span)).collect()
}

/// Random histories: from, then unions (both operand orders) and queries on the accumulator.
pub fn record(args: &Args) {
    let mut rng = Rng::new(args.get_u64("seed", 1));
    let n = args.get_u64("n", 1000);
    let corrupt = args.get_u64("corrupt", 0);

    for line in 0..n {
        let mut chain = Vec::new();
        let v = random_vec(&mut rng);
        let mut acc = UniqueSortedVec::from(v.clone());
        chain.push(json!({"op": "from", "acc": [], "arg": v, "res": acc.as_slice()}));

        let outcome = guarded(std::panic::AssertUnwindSafe(|| {
        for _ in 0..rng.below(6) {
            let before = acc.as_slice().to_vec();

            match rng.below(4) {
                0 => {
                    let v = random_vec(&mut rng);
                    acc = acc.union(UniqueSortedVec::from(v.clone()));
                    chain.push(json!({"op": "union", "acc": before, "arg": v, "res": acc.as_slice()}));
                }
                1 => {
                    let v = random_vec(&mut rng);
                    acc = UniqueSortedVec::from(v.clone()).union(acc);
                    chain.push(json!({"op": "union_rev", "acc": before, "arg": v, "res": acc.as_slice()}));
                }
                2 => {
                    let e = rng.range(-1, 45);
                    chain.push(json!({"op": "contains", "acc": before, "arg": e, "res": acc.contains(&e)}));
                }
                _ => {
                    let e = rng.range(-1, 45);
                    let r = acc.find_first_following(&e).copied().unwrap_or(-1);
                    chain.push(json!({"op": "first_following", "acc": before, "arg": e, "res": r}));
                }
            }
        }

        }));

        if let Err(p) = outcome {
            chain.push(json!({"op": "panic", "acc": [], "arg": [], "res": p}));
        }

        if corrupt > 0 && line + 1 == corrupt {
            let last = chain.last_mut().unwrap();
            last["res"] = match &last["res"] {
                Value::Array(a) => {
                    let mut a = a.clone();
                    a.push(json!(5000));
                    Value::Array(a)
                }
                Value::Bool(b) => json!(!b),
                other => json!(other.as_i64().unwrap() + 1),
            };
        }

        println!("{}", json!({"chain": chain}));
    }
}
