//! C11: sun events. Event = coordinates (in 1e-4 degree), a date, the zone offset inferred from
//! the coordinates, the four local event times the evaluator uses, the four absolute instants of
//! `Coordinates::event_time`, and the state of `sunrise-sunset` at mean solar noon / midnight.

use chrono::{Duration, NaiveDate, NaiveDateTime, NaiveTime, Offset, TimeZone, Timelike};
use opening_hours::localization::{Coordinates, Localize, NoLocation, TzLocation};
use opening_hours::{Context, OpeningHours};
use opening_hours_syntax::rules::time::TimeEvent;
use serde_json::{json, Value};

use crate::astjson::{date_of_daynum, daynum};
use crate::rng::Rng;
use crate::util::guarded;
use crate::Args;

const EVENTS: [TimeEvent; 4] = [TimeEvent::Dawn, TimeEvent::Sunrise, TimeEvent::Sunset, TimeEvent::Dusk];

fn secs(t: NaiveTime) -> i64 {
    i64::from(t.num_seconds_from_midnight())
}

fn grid_event(id: u64, lat1e4: i64, lon1e4: i64, date: NaiveDate) -> Value {
    let lat = lat1e4 as f64 / 10_000.0;
    let lon = lon1e4 as f64 / 10_000.0;
    let mut ev = json!({"id": id, "what": "grid", "lat": lat1e4, "lon": lon1e4, "day": daynum(date)});

    let res = guarded(|| {
        let coords = Coordinates::new(lat, lon).expect("grid coordinates are valid");
        let loc = TzLocation::from_coords(coords);
        let tz = *loc.get_timezone();
        let noon_utc = date.and_hms_opt(12, 0, 0).unwrap();
        let off = i64::from(tz.offset_from_utc_datetime(&noon_utc).fix().local_minus_utc());
        let local: Vec<i64> = EVENTS.iter().map(|e| secs(loc.event_time(date, *e))).collect();
        let utc: Vec<i64> = EVENTS
            .iter()
            .map(|e| {
                let dt = coords.event_time(date, *e).naive_utc();
                (daynum(dt.date()) - daynum(date)) * 86_400 + secs(dt.time())
            })
            .collect();
        let offs: Vec<i64> = EVENTS
            .iter()
            .map(|e| i64::from(tz.offset_from_utc_datetime(&coords.event_time(date, *e).naive_utc()).fix().local_minus_utc()))
            .collect();

        // `sunrise-sunset` at mean solar noon and mean solar midnight (local wall clock)
        let oh = OpeningHours::parse("sunrise-sunset").unwrap().with_context(Context::default().with_locale(loc.clone()));
        let mean_noon = 43_200 - (lon1e4 * 240).div_euclid(10_000) + off;
        let at = |s: i64| -> Option<String> {
            let naive: NaiveDateTime = date.and_hms_opt(0, 0, 0).unwrap() + Duration::seconds(s);
            let dt = tz.from_local_datetime(&naive).earliest()?;
            Some(oh.state(dt).as_str().to_string())
        };
        (tz.name().to_string(), off, local, utc, offs, at(mean_noon), at(mean_noon + 43_200), at(mean_noon - 43_200))
    });

    match res {
        Ok((zone, off, local, utc, offs, noon, midnight, midnight2)) => {
            ev["zone"] = json!(zone);
            ev["off"] = json!(off);
            ev["local"] = json!(local);
            ev["utc"] = json!(utc);
            ev["offs"] = json!(offs);
            ev["state_noon"] = json!(noon.unwrap_or_else(|| "gap".into()));
            ev["state_midnight"] = json!([midnight.unwrap_or_else(|| "gap".into()), midnight2.unwrap_or_else(|| "gap".into())]);
        }
        Err(p) => ev["panic"] = json!(p),
    }

    ev
}

pub fn record(args: &Args) {
    let seed = args.get_u64("seed", 1);
    let mut rng = Rng::new(seed);
    let step_lat = args.get_u64("lat-step", 10) as i64 * 10_000;
    let step_lon = args.get_u64("lon-step", 30) as i64 * 10_000;
    let ndates = args.get_u64("dates", 6);
    let corrupt = args.get_u64("corrupt", 0);
    let mut id = 0u64;

    // defaults without coordinates: every date gives 06:00 / 07:00 / 19:00 / 20:00
    for _ in 0..40 {
        id += 1;
        let date = date_of_daynum(rng.range(-25_567, 2_932_896));
        let local: Vec<i64> = EVENTS.iter().map(|e| secs(NoLocation.event_time(date, *e))).collect();
        let tz_local: Vec<i64> = EVENTS.iter().map(|e| secs(TzLocation::new(chrono_tz::Europe::Paris).event_time(date, *e))).collect();
        println!("{}", json!({"id": id, "what": "default", "day": daynum(date), "local": local, "tz_local": tz_local}));
    }

    // grid
    let mut lats: Vec<i64> = (-600_000..=600_000).step_by(step_lat as usize).collect();
    lats.extend([-599_000, 599_000, 0, 234_400, -234_400]);
    let mut lons: Vec<i64> = (-1_800_000..=1_800_000).step_by(step_lon as usize).collect();
    lons.extend([-1_799_900, 1_799_900, 0]);

    let mut zone_changes: std::collections::HashMap<String, Vec<(NaiveDateTime, i64)>> = std::collections::HashMap::new();

    for &lat in &lats {
        for &lon in &lons {
            let mut dates: Vec<NaiveDate> = vec![
                NaiveDate::from_ymd_opt(2024, 6, 21).unwrap(),
                NaiveDate::from_ymd_opt(2023, 12, 22).unwrap(),
            ];
            if ndates > 2 {
                dates.push(NaiveDate::from_ymd_opt(2025, 3, 20).unwrap());
            }
            while (dates.len() as u64) < ndates {
                dates.push(date_of_daynum(rng.range(-25_567, 47_846))); // 1900 .. 2100
            }
            // the days around the zone's two latest clock changes: an event near local midnight belongs to another UTC day,
            // where the zone's offset may differ
            if let Ok(tz) = guarded(|| *TzLocation::from_coords(Coordinates::new(lat as f64 / 10_000.0, lon as f64 / 10_000.0).unwrap()).get_timezone()) {
                let trs = zone_changes.entry(tz.name().to_string()).or_insert_with(|| crate::t_tz::transitions(tz));
                for (at, _) in trs.iter().rev().take(2) {
                    dates.push(at.date());
                    dates.push(at.date().pred_opt().unwrap());
                    dates.push(at.date().succ_opt().unwrap());
                }
            }

            for date in dates {
                id += 1;
                let mut ev = grid_event(id, lat, lon, date);
                if corrupt > 0 && id == corrupt && ev.get("local").is_some() {
                    // self-test: swap sunrise and sunset
                    let l = ev["local"].clone();
                    ev["local"] = json!([l[0], l[2], l[1], l[3]]);
                }
                println!("{ev}");
            }
        }
    }

    // acceptance classes of coordinates; every accepted pair must yield a zone and evaluate
    let specials: Vec<(&str, f64)> = vec![("nan", f64::NAN), ("inf", f64::INFINITY), ("-inf", f64::NEG_INFINITY)];
    let nums: Vec<i64> = vec![-1_800_001, -1_800_000, -900_001, -900_000, -899_999, 0, 899_999, 900_000, 900_001, 1_799_999, 1_800_000, 1_800_001, 450_000, -1_234_567];
    let mut cases: Vec<(String, f64, i64, String, f64, i64)> = Vec::new();

    for &a in &nums {
        for &b in &nums {
            cases.push(("num".into(), a as f64 / 10_000.0, a, "num".into(), b as f64 / 10_000.0, b));
        }
    }
    for (name, v) in &specials {
        cases.push((name.to_string(), *v, 0, "num".into(), 10.0, 100_000));
        cases.push(("num".into(), 10.0, 100_000, name.to_string(), *v, 0));
    }
    cases.push(("num".into(), -0.0, 0, "num".into(), -0.0, 0));

    for (clat, lat, lat1e4, clon, lon, lon1e4) in cases {
        id += 1;
        let accepted = Coordinates::new(lat, lon);
        let mut ev = json!({"id": id, "what": "accept", "lat_class": clat, "lat": lat1e4, "lon_class": clon, "lon": lon1e4,
                            "accepted": accepted.is_some()});

        if let Some(coords) = accepted {
            let res = guarded(|| {
                let ctx = Context::from_coords(coords);
                let zone = ctx.locale.get_timezone().name().to_string();
                let oh = OpeningHours::parse("sunrise-sunset ; PH off").unwrap().with_context(ctx);
                let date = NaiveDate::from_ymd_opt(2024, 3, 20).unwrap();
                let n = oh.schedule_at(date).into_iter().count();
                let dt = chrono_tz::UTC.with_ymd_and_hms(2024, 3, 20, 12, 0, 0).unwrap().with_timezone(oh_tz(&oh));
                let _ = oh.state(dt);
                let _ = oh.next_change(dt);
                (zone, n)
            });
            match res {
                Ok((zone, n)) => {
                    ev["zone"] = json!(zone);
                    ev["tiles"] = json!(n);
                }
                Err(p) => ev["panic"] = json!(p),
            }
        }

        println!("{ev}");
    }
}

fn oh_tz(_oh: &OpeningHours<TzLocation<chrono_tz::Tz>>) -> &'static chrono_tz::Tz {
    &chrono_tz::UTC
}
