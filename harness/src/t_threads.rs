//! C18: purity across calls, clones and threads. `ohv threads --skeleton '[["c1","c2"],["c3"]]'`
//! runs one thread per inner list in THIS fresh process (all lazily initialised tables are still
//! uninitialised), released together by a barrier, each performing its calls in order, and logs
//! one event per call at its return: (thread, seq, call, result digest).

use std::str::FromStr;
use std::sync::{Arc, Barrier};

use chrono::{NaiveDate, NaiveDateTime, TimeZone};
use opening_hours::localization::{Coordinates, Country, TzLocation};
use opening_hours::{Context, OpeningHours};
use serde_json::{json, Value};

use crate::util::guarded;
use crate::Args;

fn dt(s: &str) -> NaiveDateTime {
    NaiveDateTime::parse_from_str(s, "%Y-%m-%d %H:%M").unwrap()
}

fn paris() -> Coordinates {
    Coordinates::new(48.8535, 2.34839).unwrap()
}

fn tokyo() -> Coordinates {
    Coordinates::new(35.6762, 139.6503).unwrap()
}

fn ocean() -> Coordinates {
    Coordinates::new(-45.0, -140.0).unwrap()
}

/// Every date of a calendar, hashed (a count alone does not tell one country's calendar from another's).
fn cal_hash(cal: &compact_calendar::CompactCalendar) -> u64 {
    let mut h: u64 = 0xcbf29ce484222325;
    for d in cal.iter() {
        for b in d.to_string().bytes() {
            h = (h ^ u64::from(b)).wrapping_mul(0x100000001b3);
        }
    }
    h
}

/// The menu of calls; each returns a digest of everything it observed.
fn perform(call: &str, shared: &OpeningHours, ti: usize) -> String {
    match call {
        "holidays_fr" => {
            let h = Country::FR.holidays();
            let oh = OpeningHours::parse("Mo-Su 10:00-12:00 ; PH off").unwrap().with_context(Context::default().with_holidays(h.clone()));
            format!(
                "{:x} {:x} {} {} {} {:?} {:?}",
                cal_hash(h.get_public()),
                cal_hash(h.get_school()),
                h.get_public().count(),
                h.get_school().count(),
                h.get_public().contains(NaiveDate::from_ymd_opt(2024, 7, 14).unwrap()),
                oh.state(dt("2024-07-14 11:00")),
                oh.next_change(dt("2024-07-13 13:00"))
            )
        }
        "holidays_us" => {
            let h = Country::from_str("US").unwrap().holidays();
            let first = h.get_public().first_after(NaiveDate::from_ymd_opt(2030, 1, 1).unwrap());
            format!("{} {} {:?} {:x} {:x}", h.get_public().count(), h.get_school().count(), first, cal_hash(h.get_public()), cal_hash(h.get_school()))
        }
        "country_from_coords" => format!(
            "{:?} {:?} {:?}",
            Country::try_from_coords(paris()),
            Country::try_from_coords(tokyo()),
            Country::try_from_coords(ocean())
        ),
        "tz_from_coords" => format!(
            "{} {} {}",
            TzLocation::from_coords(paris()).get_timezone().name(),
            TzLocation::from_coords(tokyo()).get_timezone().name(),
            TzLocation::from_coords(ocean()).get_timezone().name()
        ),
        "ctx_from_coords" => {
            let ctx = Context::from_coords(paris());
            let tz = *ctx.locale.get_timezone();
            let oh = OpeningHours::parse("sunrise-sunset ; PH off").unwrap().with_context(ctx);
            let t = tz.with_ymd_and_hms(2024, 7, 13, 15, 0, 0).unwrap();
            format!("{:?} {:?}", oh.state(t), oh.next_change(t))
        }
        "easter" => {
            let oh = OpeningHours::parse("easter -2 days-easter +1 day 10:00-12:00").unwrap();
            format!(
                "{:?} {:?}",
                oh.schedule_at(NaiveDate::from_ymd_opt(2024, 3, 31).unwrap()),
                oh.next_change(dt("2024-04-02 00:00"))
            )
        }
        "plain_shared" => {
            let ivs: Vec<_> = shared.iter_from(dt("2024-06-03 09:00")).take(6).collect();
            format!("{:?} {:?} {:?}", shared.state(dt("2024-06-03 11:00")), shared.next_change(dt("2024-06-08 11:30")), ivs)
        }
        "plain_clone" => {
            let c = shared.clone();
            let other = OpeningHours::parse("24/7 ; Su off").unwrap();
            let a = c.state(dt("2024-06-03 11:00"));
            let _ = other.next_change(dt("2024-06-03 11:00"));
            let ivs: Vec<_> = c.iter_from(dt("2024-06-03 09:00")).take(6).collect();
            format!("{:?} {:?} {:?}", a, c.next_change(dt("2024-06-08 11:30")), ivs)
        }
        "normalize" => {
            let e = opening_hours_syntax::parse("Mo 10:00-12:00 ; Tu 10:00-12:00 ; We-Fr 09:00-12:00, 14:00-18:00 ; Sa off \"c\"").unwrap();
            format!("{} {}", e.clone().normalize(), shared.normalize())
        }
        "clone_ctx_switch" => {
            // one parsed expression, clones evaluated alternately under two holiday contexts at the same instants;
            // every answer must be the one of an isolated, freshly parsed expression with that context
            let src = "10:00-12:00 ; PH off";
            let base = OpeningHours::parse(src).unwrap();
            let fr = base.clone().with_context(Context::default().with_holidays(Country::FR.holidays()));
            let us = base.clone().with_context(Context::default().with_holidays(Country::US.holidays()));
            let t = dt("2020-07-14 11:00");
            let d = NaiveDate::from_ymd_opt(2020, 7, 14).unwrap();
            let inter = format!(
                "{:?} {:?} {:?} {:?} {:?} {:?} {:?}",
                us.state(t), fr.state(t), us.schedule_at(d), fr.schedule_at(d), fr.next_change(t), us.next_change(t), base.state(t)
            );
            // every isolated answer comes from a freshly parsed expression on a thread of its own (no per-thread leftovers)
            let iso = |h: opening_hours::ContextHolidays| OpeningHours::parse(src).unwrap().with_context(Context::default().with_holidays(h));
            let alone = |f: Box<dyn FnOnce() -> String + Send>| std::thread::spawn(f).join().unwrap_or_else(|_| "PANIC".into());
            let (hfr, hus) = (Country::FR.holidays(), Country::US.holidays());
            let parts: Vec<String> = vec![
                alone(Box::new({ let h = hus.clone(); move || format!("{:?}", iso(h).state(t)) })),
                alone(Box::new({ let h = hfr.clone(); move || format!("{:?}", iso(h).state(t)) })),
                alone(Box::new({ let h = hus.clone(); move || format!("{:?}", iso(h).schedule_at(d)) })),
                alone(Box::new({ let h = hfr.clone(); move || format!("{:?}", iso(h).schedule_at(d)) })),
                alone(Box::new({ let h = hfr.clone(); move || format!("{:?}", iso(h).next_change(t)) })),
                alone(Box::new({ let h = hus.clone(); move || format!("{:?}", iso(h).next_change(t)) })),
                alone(Box::new(move || format!("{:?}", OpeningHours::parse(src).unwrap().state(t)))),
            ];
            let isolated = parts.join(" ");
            format!("{} {}", if inter == isolated { "CONSISTENT" } else { "INCONSISTENT" }, inter)
        }
        "clone_locale_switch" => {
            let src = "sunrise-sunset";
            let base = OpeningHours::parse(src).unwrap();
            let mk = |o: &OpeningHours, c: Coordinates| o.clone().with_context(Context::default().with_locale(TzLocation::new(chrono_tz::UTC).with_coords(c)));
            let (a, b) = (mk(&base, paris()), mk(&base, tokyo()));
            let d = NaiveDate::from_ymd_opt(2024, 6, 21).unwrap();
            let inter = format!("{:?} {:?} {:?}", a.schedule_at(d), b.schedule_at(d), a.schedule_at(d));
            // also through state / next_change at instants of the same and of the next day
            let (t1, t2) = (chrono_tz::UTC.from_utc_datetime(&dt("2024-06-21 07:30")), chrono_tz::UTC.from_utc_datetime(&dt("2024-06-22 20:30")));
            let inter = format!("{inter} {:?} {:?} {:?} {:?}", a.state(t1), b.state(t1), b.next_change(t2), a.next_change(t2));
            let alone = |c: Coordinates, what: u8| {
                std::thread::spawn(move || {
                    let o = OpeningHours::parse(src).unwrap().with_context(Context::default().with_locale(TzLocation::new(chrono_tz::UTC).with_coords(c)));
                    match what {
                        0 => format!("{:?}", o.schedule_at(d)),
                        1 => format!("{:?}", o.state(t1)),
                        _ => format!("{:?}", o.next_change(t2)),
                    }
                })
                .join()
                .unwrap_or_else(|_| "PANIC".into())
            };
            let isolated = [alone(paris(), 0), alone(tokyo(), 0), alone(paris(), 0), alone(paris(), 1), alone(tokyo(), 1), alone(tokyo(), 2), alone(paris(), 2)].join(" ");
            format!("{} {}", if inter == isolated { "CONSISTENT" } else { "INCONSISTENT" }, inter)
        }
        "calendar_rebuild" => {
            // holiday calendars that follow each other in memory: a context is built, asked, dropped, and another one with other
            // holidays is built right after, so that the allocator hands back the very cell that was just freed (the calendars are
            // prepared beforehand, the expression is parsed once, and the value is the last thing dropped in a round: nothing
            // allocates between the free and the next Arc::new). Whatever the library remembers about "the calendar" between calls
            // must not outlive it: every answer must be the one of a fresh thread with that calendar.
            use compact_calendar::CompactCalendar;
            use opening_hours::ContextHolidays;
            let day = |m: u32, d: u32| NaiveDate::from_ymd_opt(2024, m, d).unwrap();
            let sets: [Vec<NaiveDate>; 3] = [vec![day(5, 2), day(5, 3), day(12, 31)], vec![day(5, 1), day(12, 25)], vec![day(1, 1), day(4, 30), day(7, 14)]];
            let plan: Vec<(Vec<NaiveDate>, NaiveDateTime)> = (0..9usize)
                .map(|round| (sets[[0, 1, 0, 2, 1, 2, 0, 1, 2][round]].clone(), [dt("2024-04-29 12:00"), dt("2024-04-30 12:00"), dt("2024-12-24 08:00")][round % 3]))
                .collect();
            let base = OpeningHours::parse("24/7 ; PH off").unwrap();
            let school: Arc<CompactCalendar> = Arc::default();
            let mut prepared: Vec<CompactCalendar> = plan.iter().rev().map(|(set, _)| set.iter().copied().collect()).collect();
            let mut inter: Vec<String> = Vec::with_capacity(plan.len());
            let mut slot: Vec<String> = Vec::with_capacity(1);
            for (_, t) in &plan {
                let public = Arc::new(prepared.pop().unwrap());
                let oh = base.clone().with_context(Context::default().with_holidays(ContextHolidays::new(public, school.clone())));
                {
                    let ivs: Vec<_> = oh.iter_range(*t, *t + chrono::Duration::days(300)).take(4).collect();
                    slot.push(format!("{:?} {:?}", oh.next_change(*t), ivs));
                }
                drop(oh);
                inter.push(slot.pop().unwrap());
            }
            let isolated: Vec<String> = plan
                .into_iter()
                .map(|(set, t)| {
                    std::thread::spawn(move || {
                        let cal: CompactCalendar = set.iter().copied().collect();
                        let oh = OpeningHours::parse("24/7 ; PH off").unwrap().with_context(Context::default().with_holidays(ContextHolidays::new(Arc::new(cal), Default::default())));
                        let ivs: Vec<_> = oh.iter_range(t, t + chrono::Duration::days(300)).take(4).collect();
                        format!("{:?} {:?}", oh.next_change(t), ivs)
                    })
                    .join()
                    .unwrap_or_else(|_| "PANIC".into())
                })
                .collect();
            format!("{} {}", if inter == isolated { "CONSISTENT" } else { "INCONSISTENT" }, inter.join(" | "))
        }
        "coords_two_zones" => {
            // the same coordinates under several time zones, interleaved: the local time of a sun event is its absolute instant plus
            // the zone's offset (Sun.tla), so the answers of two zones differ by the difference of their offsets - whatever was
            // asked before (a memo keyed by coordinates and date only would hand one zone's times to the other)
            use chrono::{Offset, Timelike};
            use opening_hours::localization::Localize;
            use opening_hours_syntax::rules::time::TimeEvent;
            let zones = [chrono_tz::UTC, chrono_tz::Europe::Paris, chrono_tz::Asia::Tokyo, chrono_tz::America::New_York];
            let mut ok = true;
            let mut out = String::new();
            for (k, (coords, date)) in [(paris(), NaiveDate::from_ymd_opt(2024, 6, 21).unwrap()), (tokyo(), NaiveDate::from_ymd_opt(2024, 12, 21).unwrap()),
                                        (paris(), NaiveDate::from_ymd_opt(2025, 3, 20).unwrap())].into_iter().enumerate() {
                let order: Vec<usize> = if k % 2 == 0 { vec![0, 1, 2, 3] } else { vec![3, 2, 1, 0] };
                let mut local = [[0i64; 4]; 4];
                for &zi in &order {
                    let loc = TzLocation::new(zones[zi]).with_coords(coords);
                    let oh = OpeningHours::parse("sunrise-sunset ; dawn-sunrise unknown").unwrap().with_context(Context::default().with_locale(loc.clone()));
                    out.push_str(&format!("{:?} ", oh.schedule_at(date)));
                    for (ei, ev) in [TimeEvent::Dawn, TimeEvent::Sunrise, TimeEvent::Sunset, TimeEvent::Dusk].into_iter().enumerate() {
                        let t = loc.event_time(date, ev);
                        local[zi][ei] = i64::from(t.hour() * 60 + t.minute());
                    }
                }
                for zi in 1..4 {
                    let off = i64::from(zones[zi].offset_from_utc_datetime(&date.and_hms_opt(12, 0, 0).unwrap()).fix().local_minus_utc()) / 60;
                    for ei in 0..4 {
                        let diff = (local[zi][ei] - local[0][ei] - off).rem_euclid(1440);
                        if diff > 6 && diff < 1434 {
                            ok = false;
                        }
                    }
                }
                out.push_str(&format!("{local:?} "));
            }
            format!("{} {out}", if ok { "CONSISTENT" } else { "INCONSISTENT" })
        }
        "interleave_exprs" => {
            let a = OpeningHours::parse("Mo-Fr 10:00-18:00").unwrap();
            let b = OpeningHours::parse("Mo-Fr 12:00-14:00 unknown ; easter off").unwrap();
            let t = dt("2024-06-03 13:00");
            let first = format!("{:?} {:?}", a.state(t), a.next_change(t));
            let _ = (b.state(t), b.next_change(t), b.schedule_at(t.date()));
            let again = format!("{:?} {:?}", a.state(t), a.next_change(t));
            let bb = format!("{:?} {:?}", b.state(t), b.next_change(t));
            format!("{} {first} {bb}", if first == again { "CONSISTENT" } else { "INCONSISTENT" })
        }
        "shared_walk" => {
            // every thread asks its clone of the ONE shared value about the same 240 instants, each in another order; the answers,
            // put back in the order of the instants, must be those of a sequential walk
            let n = 240usize;
            let base = dt("2024-07-01 00:30");
            let mut answers: Vec<String> = vec![String::new(); n];
            for j in 0..n {
                let k = (j * 7 + ti * 37) % n;
                let t = base + chrono::Duration::minutes(97 * k as i64);
                answers[k] = format!("{:?}/{:?}/{}", shared.state(t), shared.next_change(t), shared.schedule_at(t.date()).into_iter().count());
            }
            let mut h: u64 = 0xcbf29ce484222325;
            for b in answers.join("|").bytes() {
                h = (h ^ u64::from(b)).wrapping_mul(0x100000001b3);
            }
            format!("{n} answers, digest {h:016x}, first {}", answers[0])
        }
        other => panic!("unknown call {other}"),
    }
}

pub fn run(args: &Args) {
    let skeleton: Vec<Vec<String>> = serde_json::from_str(args.get_str("skeleton", "[]")).expect("--skeleton JSON");
    let jitter = args.get_u64("jitter", 0);
    let shared = OpeningHours::parse("Mo-Fr 10:00-18:00 ; Sa 10:00-12:00 \"x\"").unwrap();
    let barrier = Arc::new(Barrier::new(skeleton.len()));
    let mut handles = Vec::new();

    for (ti, calls) in skeleton.into_iter().enumerate() {
        let shared = shared.clone();
        let barrier = barrier.clone();

        handles.push(std::thread::spawn(move || {
            let mut events: Vec<Value> = Vec::new();
            barrier.wait();

            // seeded jitter (busy wait) so that the first uses do not always race in the same order
            let spins = (jitter.wrapping_mul(2654435761).wrapping_add(ti as u64 * 40503)) % 20_000;
            let mut x = 0u64;
            for i in 0..spins * 50 {
                x = x.wrapping_add(i);
            }
            std::hint::black_box(x);

            for (seq, call) in calls.iter().enumerate() {
                let digest = guarded(|| perform(call, &shared, ti)).unwrap_or_else(|p| format!("PANIC: {p}"));
                events.push(json!({"thread": ti, "seq": seq, "call": call, "digest": digest}));
            }

            events
        }));
    }

    for h in handles {
        for ev in h.join().expect("harness thread panicked") {
            println!("{ev}");
        }
    }
}
