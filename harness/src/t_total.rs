//! C04: totality. For every input string: parse; if it parses: print, normalise, and evaluate
//! (schedule_at / state / next_change / iter_range) at extreme and ordinary instants under
//! several contexts. Every call runs under catch_unwind on a watchdog thread, with the hook
//! counter of schedule_at calls as a deterministic measure of work. One event per input.

use std::sync::Arc;

use chrono::{Duration, NaiveDate, NaiveDateTime, TimeDelta, TimeZone};
use chrono_tz::Tz;
use compact_calendar::CompactCalendar;
use opening_hours::localization::{Coordinates, TzLocation};
use opening_hours::{Context, ContextHolidays, OpeningHours};
use serde_json::{json, Value};

use crate::exprs::{corpus, Gen, GenOpts};
use crate::rng::Rng;
use crate::util::{guarded, read_ndjson, with_timeout};
use crate::Args;

const END_DAY: i64 = 2_932_897; // 10000-01-01

fn day_of(d: NaiveDate) -> i64 {
    crate::astjson::daynum(d)
}

fn instants(rng: &mut Rng) -> Vec<(String, NaiveDateTime)> {
    let ymd = |y, m, d, h, mi| NaiveDate::from_ymd_opt(y, m, d).unwrap().and_hms_opt(h, mi, 0).unwrap();
    let mut v = vec![
        ("min".to_string(), NaiveDateTime::MIN),
        ("max".to_string(), NaiveDateTime::MAX),
        ("y-262000".to_string(), ymd(-262_000, 6, 1, 12, 0)),
        ("y262000".to_string(), ymd(262_000, 6, 1, 12, 0)),
        ("start-1min".to_string(), ymd(1899, 12, 31, 23, 59)),
        ("start".to_string(), ymd(1900, 1, 1, 0, 0)),
        ("end-1min".to_string(), ymd(9999, 12, 31, 23, 59)),
        ("end".to_string(), ymd(10_000, 1, 1, 0, 0)),
        ("end+1min".to_string(), ymd(10_000, 1, 1, 0, 1)),
        ("leap".to_string(), ymd(2024, 2, 29, 23, 59)),
        ("dst".to_string(), ymd(2024, 3, 31, 2, 30)),
    ];
    for i in 0..3 {
        let d = crate::astjson::date_of_daynum(rng.range(-25_567, 2_932_896));
        v.push((format!("random{i}"), d.and_hms_opt(rng.range(0, 23) as u32, rng.range(0, 59) as u32, rng.range(0, 59) as u32).unwrap()));
    }
    v
}

fn dense_holidays() -> ContextHolidays {
    let mut cal = CompactCalendar::default();
    let mut d = NaiveDate::from_ymd_opt(2000, 1, 1).unwrap();
    while d < NaiveDate::from_ymd_opt(2040, 1, 1).unwrap() {
        cal.insert(d);
        d = d.succ_opt().unwrap().succ_opt().unwrap();
    }
    // (a calendar spanning 1900..9999 makes every holiday hint scan 8000 years: a known slowness of the
    // library, bounded but impractical, documented in DESIGN.md and kept out of the watchdog's way)
    let mut school = CompactCalendar::default();
    for y in 2019..2028 {
        for d in 1..15 {
            school.insert(NaiveDate::from_ymd_opt(y, 7, d).unwrap());
        }
    }
    ContextHolidays::new(Arc::new(cal), Arc::new(school))
}

/// (call name, outcome, work, span in days the work bound may depend on)
type CallRes = (String, String, u64, i64);

static GAVE_UP: std::sync::atomic::AtomicBool = std::sync::atomic::AtomicBool::new(false);

fn measured<T>(name: String, span: i64, secs: u64, f: impl FnOnce() -> T + Send + 'static) -> CallRes
where
    T: Send + 'static,
{
    // once a call on this input did not return, its thread keeps running: the remaining calls on the same input are not made
    // (one expiry is enough for the verdict, and the leftover thread would slow them down)
    if GAVE_UP.load(std::sync::atomic::Ordering::SeqCst) {
        return (name, "skipped".into(), 0, span);
    }
    match with_timeout(secs, move || guarded(f).map(|_| ())) {
        Some((Ok(()), work)) => (name, "ok".into(), work, span),
        Some((Err(p), work)) => (name, format!("panic: {}", p.chars().take(120).collect::<String>()), work, span),
        None => {
            GAVE_UP.store(true, std::sync::atomic::Ordering::SeqCst);
            (name, "timeout".into(), 0, span)
        }
    }
}

fn span_from(t: NaiveDateTime) -> i64 {
    (END_DAY - day_of(t.date()).clamp(-25_567, END_DAY)).max(0) + 2
}

fn eval_naive<L>(res: &mut Vec<CallRes>, label: &str, oh: &OpeningHours<L>, insts: &[(String, NaiveDateTime)], secs: u64, conv: impl Fn(NaiveDateTime) -> Option<L::DateTime>)
where
    L: opening_hours::localization::Localize + 'static,
    L::DateTime: Send + 'static,
{
    for (iname, t) in insts {
        let Some(dt) = conv(*t) else { continue };
        let span = span_from(*t);
        let o = oh.clone();
        let d = dt.clone();
        res.push(measured(format!("{label}:state@{iname}"), 2, secs, move || o.state(d)));
        let o = oh.clone();
        let d = dt.clone();
        res.push(measured(format!("{label}:next_change@{iname}"), span, secs, move || o.next_change(d)));
        let o = oh.clone();
        let d = dt.clone();
        res.push(measured(format!("{label}:iter_from.take(5)@{iname}"), span, secs, move || o.iter_from(d).take(5).count()));
        let o = oh.clone();
        let d = dt.clone();
        let date = t.date();
        res.push(measured(format!("{label}:schedule_at@{iname}"), 1, secs, move || {
            let _ = d;
            o.schedule_at(date).into_iter().count()
        }));
    }
}

pub fn event(id: u64, input: &str, rng: &mut Rng, secs: u64, full: bool, light: u64) -> Value {
    let mut calls: Vec<CallRes> = Vec::new();
    GAVE_UP.store(false, std::sync::atomic::Ordering::SeqCst);
    let src = input.to_string();
    let parsed = {
        let s = src.clone();
        with_timeout(secs, move || guarded(move || opening_hours_syntax::parse(&s)))
    };

    let expr = match parsed {
        None => {
            calls.push(("parse".into(), "timeout".into(), 0, 0));
            None
        }
        Some((Err(p), _)) => {
            calls.push(("parse".into(), format!("panic: {}", p.chars().take(120).collect::<String>()), 0, 0));
            None
        }
        Some((Ok(Err(_)), _)) => {
            calls.push(("parse".into(), "err".into(), 0, 0));
            None
        }
        Some((Ok(Ok(e)), _)) => {
            calls.push(("parse".into(), "ok".into(), 0, 0));
            Some(e)
        }
    };

    if let Some(e) = expr {
        let e1 = e.clone();
        calls.push(measured("display".into(), 0, secs, move || e1.to_string()));
        let e2 = e.clone();
        calls.push(measured("normalize".into(), 0, secs, move || e2.normalize().to_string()));
        let e3 = e.clone();
        calls.push(measured("is_constant".into(), 0, secs, move || e3.is_constant()));

        if let Ok(Ok(base)) = guarded(|| OpeningHours::parse(&src)) {
            let insts = instants(rng);
            let subset: Vec<(String, NaiveDateTime)> = if full { insts.clone() } else { insts.iter().filter(|_| rng.chance(1, 3 * light)).cloned().collect() };
            eval_naive(&mut calls, "default", &base, &subset, secs, Some);
            if full || rng.chance(1, light) {
                let dense = base.clone().with_context(Context::default().with_holidays(dense_holidays()));
                eval_naive(&mut calls, "dense_holidays", &dense, &subset[..subset.len().min(4)], secs, Some);
            }

            for (bname, b) in [("bound0", TimeDelta::zero()), ("bound1d", TimeDelta::days(1)), ("bound30y", TimeDelta::days(10_950)), ("boundmax", TimeDelta::MAX)] {
                if !full && !rng.chance(1, 3 * light) {
                    continue;
                }
                let bounded = base.clone().with_context(Context::default().approx_bound_interval_size(b));
                eval_naive(&mut calls, bname, &bounded, &subset[..subset.len().min(3)], secs, Some);
            }

            if !full && !rng.chance(1, light) {
                return json!({"id": id, "input": input,
                              "calls": calls.iter().filter(|(_, o, _, _)| o != "skipped").map(|(c, o, w, s)| json!([c, o, w, s])).collect::<Vec<_>>()});
            }

            let zones: [Tz; 4] = [chrono_tz::Europe::Paris, chrono_tz::Pacific::Apia, chrono_tz::Australia::Lord_Howe, chrono_tz::America::St_Johns];
            let tz = *rng.pick(&zones);
            let coords = *rng.pick(&[(90.0, 0.0), (-90.0, 0.0), (10.0, 180.0), (10.0, -180.0), (48.85, 2.35), (69.6, 18.9), (0.0, 0.0)]);
            let loc = TzLocation::new(tz).with_coords(Coordinates::new(coords.0, coords.1).unwrap());
            let located = base.clone().with_context(Context::default().with_locale(loc));
            // instants representable in the zone only (chrono cannot localise its own extremes)
            let tz_insts: Vec<(String, NaiveDateTime)> = subset
                .iter()
                .filter(|(_, t)| (-200_000..=200_000).contains(&chrono::Datelike::year(&t.date())))
                .cloned()
                .collect();
            // wall-clock instants in the hours before the zone's largest clock change (Apia and Kwajalein skip a whole day)
            // and before one of its ordinary transitions
            let mut tz_insts = tz_insts;
            tz_insts.truncate(4);
            let trans = crate::t_tz::transitions(tz);
            if let Some((at, _)) = trans.iter().enumerate().max_by_key(|(i, t)| if *i == 0 { 0 } else { (t.1 - trans[*i - 1].1).abs() }).map(|(_, t)| *t) {
                for (k, h) in [5i64, 29, 1].iter().enumerate() {
                    let local = chrono::TimeZone::from_utc_datetime(&tz, &(at - Duration::hours(*h))).naive_local();
                    tz_insts.push((format!("bigjump-{k}"), local));
                }
            }
            if !trans.is_empty() {
                let (at, _) = trans[rng.below(trans.len() as u64) as usize];
                let local = chrono::TimeZone::from_utc_datetime(&tz, &(at - Duration::minutes(90))).naive_local();
                tz_insts.push(("transition-90min".to_string(), local));
            }
            eval_naive(&mut calls, &format!("tz:{}@{:?}", tz.name(), coords), &located, &tz_insts[..tz_insts.len().min(8)], secs, move |n| {
                tz.from_local_datetime(&n).earliest().or_else(|| tz.from_local_datetime(&(n + Duration::hours(2))).earliest())
            });
        }
    }

    json!({"id": id, "input": input,
           "calls": calls.iter().filter(|(_, o, _, _)| o != "skipped").map(|(c, o, w, s)| json!([c, o, w, s])).collect::<Vec<_>>()})
}

/// Seeded noise: byte-level and Unicode mutations of a sentence.
fn noisy(rng: &mut Rng, base: &str) -> String {
    let mut chars: Vec<char> = base.chars().collect();
    let pool: Vec<char> = "0123456789:-+,;|\"()[] /\u{00e9}\u{4e2d}\u{1f600}\u{0000}\u{202e}\u{feff}AZaz".chars().collect();

    for _ in 0..(1 + rng.below(4)) {
        let pos = rng.below(chars.len() as u64 + 1) as usize;
        match rng.below(4) {
            0 if !chars.is_empty() => {
                chars.remove(pos.min(chars.len() - 1));
            }
            1 => chars.insert(pos, *rng.pick(&pool)),
            2 if !chars.is_empty() => {
                let i = pos.min(chars.len() - 1);
                chars[i] = *rng.pick(&pool);
            }
            _ => {
                let n = rng.below(6) as usize;
                let piece: Vec<char> = chars.iter().skip(pos.saturating_sub(n)).take(n).copied().collect();
                for (k, c) in piece.into_iter().enumerate() {
                    chars.insert((pos + k).min(chars.len()), c);
                }
            }
        }
    }

    chars.into_iter().collect()
}

pub fn record(args: &Args) {
    let seed = args.get_u64("seed", 1);
    let mut rng = Rng::new(seed);
    let n_noise = args.get_u64("noise", 300);
    let n_random = args.get_u64("random", 200);
    let every = args.get_u64("every", 1);
    let part = args.get_u64("part", 0);
    let parts = args.get_u64("parts", 1);
    let secs = args.get_u64("event-timeout", 75);
    let light = args.get_u64("light", 1).max(1);
    let extremes_every = args.get_u64("extremes-every", 1).max(1);
    let mut inputs: Vec<String> = Vec::new();

    // sentences, corruptions, numeric extremes and token mutations chosen by the specification
    for key in ["cases", "extremes"] {
        if let Some(path) = args.opt.get(key) {
            for (i, c) in read_ndjson(path).iter().enumerate() {
                // the boundary-date family of Gen_Grammar is always included
                let keep = if key == "extremes" { c["always"] == true || (i as u64 + seed) % extremes_every == 0 } else { c["family"] == "edge" || (i as u64 + seed) % every == 0 };
                if keep {
                    inputs.push(c["text"].as_str().unwrap().to_string());
                }
            }
        }
    }

    // the inputs on which the pinned tree panicked (repaired: P3, R7, R8, R9, R23) are always asked again, whatever the sampling
    inputs.extend(
        ["2020-2030/65535", "2020-9999/65535 10:00-12:00", "10:00-12:00/30", "10:00-16:00/01:30", "10:00-16:00/24:00", "Mo 00:00-24:00/24:00 ; (dawn+24:00)-25:00", "Mo[1] +2147483647 days", "PH -2147483648 day",
         "Jun 7+Tu +999999999 days", "(dusk+23:00)-10:00", "(dusk+10:00)-26:00", "(sunrise+23:59)-(dawn-23:59)", "(sunset-23:00)-02:00"]
            .iter()
            .map(|s| s.to_string()),
    );
    let corp = corpus();
    inputs.extend(corp.iter().cloned());

    for _ in 0..n_random {
        let opts = GenOpts { corners: true, ..GenOpts::default() };
        inputs.push(Gen { rng: &mut rng, opts }.expression());
    }

    let bases: Vec<String> = inputs.iter().filter(|s| !s.is_empty()).cloned().collect();
    for _ in 0..n_noise {
        let b = rng.pick(&bases).clone();
        inputs.push(noisy(&mut rng, &b));
    }
    inputs.extend(["".to_string(), " ".to_string(), "\u{0}".to_string(), "\"".to_string(), "a".repeat(5000), "Mo,".repeat(2000), "(".repeat(3000)]);

    let mut id = 0;
    for (i, input) in inputs.iter().enumerate() {
        if i as u64 % parts != part {
            continue;
        }
        id += 1;
        let full = i as u64 % (10 * light) == 0;
        println!("{}", event(id * parts + part, input, &mut rng, secs, full, light));
    }
}
