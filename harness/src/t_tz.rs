//! C09: time-zone contexts. For zones of chrono-tz, around their transitions (gaps, folds,
//! half-hour DST, date-line changes), the localized API is compared with the naive API at the
//! wall-clock time. The zone's offset table around the transition is extracted from chrono-tz
//! itself and logged: it is the definition of the zone for the specification.

use chrono::{DateTime, Duration, NaiveDate, NaiveDateTime, Offset, TimeZone, Timelike, Utc};
use chrono_tz::Tz;
use opening_hours::localization::TzLocation;
use opening_hours::{Context, OpeningHours};
use serde_json::{json, Value};

use crate::astjson::daynum;
use crate::rng::Rng;
use crate::util::guarded;
use crate::Args;

/// Seconds since 1970-01-01T00:00 (of a UTC or of a wall-clock time); fits TLC's 32-bit integers until 2038.
fn inst(dt: NaiveDateTime) -> Value {
    json!(daynum(dt.date()) * 86_400 + i64::from(dt.time().num_seconds_from_midnight()))
}

fn offset_at(tz: Tz, utc: NaiveDateTime) -> i64 {
    i64::from(tz.offset_from_utc_datetime(&utc).fix().local_minus_utc())
}

/// Transitions of `tz` in [1970, 2038): (first UTC second of the new offset, new offset).
pub fn transitions(tz: Tz) -> Vec<(NaiveDateTime, i64)> {
    let mut out = Vec::new();
    let mut t = NaiveDate::from_ymd_opt(1970, 1, 1).unwrap().and_hms_opt(0, 0, 0).unwrap();
    let end = NaiveDate::from_ymd_opt(2038, 1, 1).unwrap().and_hms_opt(0, 0, 0).unwrap();
    let mut off = offset_at(tz, t);
    let step = Duration::hours(12);

    while t < end {
        let next = t + step;
        let noff = offset_at(tz, next);

        if noff != off {
            // bisect to the second
            let (mut lo, mut hi) = (t, next);
            while hi - lo > Duration::seconds(1) {
                let mid = lo + (hi - lo) / 2;
                if offset_at(tz, mid) == off { lo = mid } else { hi = mid }
            }
            out.push((hi, offset_at(tz, hi)));
            off = offset_at(tz, hi);
            t = hi;
            // (a second change within the same 12 hours is found on the next rounds)
            continue;
        }

        t = next;
    }

    out
}

const QUARTERS: &str = "00:00-00:15,00:30-00:45,01:00-01:15,01:30-01:45,02:00-02:15,02:30-02:45,03:00-03:15,03:30-03:45,04:00-04:15,04:30-04:45,05:00-05:15,12:00-13:00,23:00-23:15,23:30-23:45";

const EXPRS: &[&str] = &[
    "24/7",
    QUARTERS,
    "Mo-Fr 08:00-18:00 ; Sa 22:00-26:30 ; Su 01:30-03:30 unknown",
    "00:00-02:30 ; Mar-Oct 02:30-24:00 unknown",
    "02:00-03:00",
];

const MUST_ZONES: &[&str] = &[
    "Europe/Paris", "Australia/Lord_Howe", "Pacific/Apia", "Pacific/Kwajalein", "Asia/Kathmandu", "America/St_Johns",
    "America/New_York", "Pacific/Chatham", "Africa/Casablanca", "America/Sao_Paulo", "Asia/Tehran", "Europe/Dublin",
    "Antarctica/Troll", "Pacific/Kiritimati", "America/Caracas", "Asia/Pyongyang",
];

pub fn record(args: &Args) {
    let seed = args.get_u64("seed", 1);
    let mut rng = Rng::new(seed);
    let nzones = args.get_u64("zones", 40) as usize;
    let per_zone = args.get_u64("transitions", 4) as usize;
    let corrupt = args.get_u64("corrupt", 0);
    let input_zones = [chrono_tz::UTC, chrono_tz::Asia::Tokyo, chrono_tz::America::New_York, chrono_tz::Australia::Lord_Howe];

    let mut zones: Vec<Tz> = MUST_ZONES.iter().filter_map(|n| n.parse().ok()).collect();
    let all: Vec<Tz> = chrono_tz::TZ_VARIANTS.to_vec();
    while zones.len() < nzones.min(all.len()) {
        let z = *rng.pick(&all);
        if !zones.contains(&z) {
            zones.push(z);
        }
    }
    if nzones >= all.len() {
        zones = all;
    }

    let mut id = 0u64;

    for tz in zones {
        let trans = transitions(tz);
        let base_off = offset_at(tz, NaiveDate::from_ymd_opt(1970, 1, 1).unwrap().and_hms_opt(0, 0, 0).unwrap());
        let mut chosen: Vec<usize> = Vec::new();

        if trans.is_empty() {
            continue;
        }

        chosen.push(trans.len() - 1);
        chosen.push(0);
        while chosen.len() < per_zone.min(trans.len()) {
            let i = rng.below(trans.len() as u64) as usize;
            if !chosen.contains(&i) {
                chosen.push(i);
            }
        }
        // the largest jump of the zone (date-line changes) is always looked at
        if let Some((i, _)) = trans.iter().enumerate().max_by_key(|(i, t)| {
            let before = if *i == 0 { base_off } else { trans[*i - 1].1 };
            (t.1 - before).abs()
        }) {
            if !chosen.contains(&i) {
                chosen.push(i);
            }
        }

        for ti in chosen {
            let (at, _) = trans[ti];
            // the offset table around the transition: entry in effect before + nearby entries
            let lo = ti.saturating_sub(2);
            let hi = (ti + 2).min(trans.len() - 1);
            let before_off = if lo == 0 { base_off } else { trans[lo - 1].1 };
            let mut table = vec![json!({"from": -2_000_000_000, "off": before_off})];
            for t in &trans[lo..=hi] {
                table.push(json!({"from": inst(t.0), "off": t.1}));
            }
            let valid_from = if lo == 0 { at - Duration::days(300) } else { trans[lo - 1].0 };
            let valid_to = if hi + 1 < trans.len() { trans[hi + 1].0 } else { at + Duration::days(300) };

            for src in EXPRS {
                let Ok(base) = OpeningHours::parse(src) else { continue };
                let oh_tz = base.clone().with_context(Context::default().with_locale(TzLocation::new(tz)));
                let oh_naive = base;
                let mut offsets: Vec<i64> = vec![-7200, -3661, -3600, -3599, -1800, -61, -60, -59, -1, 0, 1, 59, 60, 1799, 1800, 3599, 3600, 3660, 7200, 86_400, -86_400];
                for _ in 0..4 {
                    offsets.push(rng.range(-5400, 5400));
                }

                for d in offsets {
                    let utc = at + Duration::seconds(d);
                    if utc - Duration::days(3) < valid_from || utc + Duration::days(3) > valid_to {
                        continue;
                    }
                    let in_zone = *rng.pick(&input_zones);
                    let input: DateTime<Tz> = Utc.from_utc_datetime(&utc).with_timezone(&in_zone);
                    let naive = input.with_timezone(&tz).naive_local();
                    let to_utc = |dt: &DateTime<Tz>| inst(dt.naive_utc());

                    let res = guarded(|| {
                        let st = oh_tz.state(input);
                        let nc = oh_tz.next_change(input);
                        let end = input + Duration::hours(5);
                        let ivs: Vec<_> = oh_tz.iter_range(input, end).take(40).collect();
                        let st_n = oh_naive.state(naive);
                        let nc_n = oh_naive.next_change(naive);
                        let naive_end = end.with_timezone(&tz).naive_local();
                        let ivs_n: Vec<_> = oh_naive.iter_range(naive, naive_end).take(40).collect();
                        (st, nc, ivs, st_n, nc_n, ivs_n, naive_end)
                    });

                    id += 1;
                    let mut ev = json!({"id": id, "zone": tz.name(), "src": src, "table": table, "t_utc": inst(utc),
                                        "input_zone": in_zone.name(), "naive_t": inst(naive)});

                    match res {
                        Ok((st, nc, ivs, st_n, nc_n, ivs_n, naive_end)) => {
                            ev["state_tz"] = json!(st.as_str());
                            ev["state_naive"] = json!(st_n.as_str());
                            ev["next_tz"] = nc.as_ref().map(to_utc).unwrap_or(json!(-1));
                            ev["next_tz_zone_ok"] = json!(nc.as_ref().map(|d| d.timezone() == tz).unwrap_or(true));
                            ev["next_naive"] = nc_n.map(inst).unwrap_or(json!(-1));
                            ev["naive_end"] = inst(naive_end);
                            ev["ivs_tz"] = Value::Array(ivs.iter().map(|r| json!([to_utc(&r.range.start), to_utc(&r.range.end), r.kind.as_str()])).collect());
                            ev["ivs_naive"] = Value::Array(ivs_n.iter().map(|r| json!([inst(r.range.start), inst(r.range.end), r.kind.as_str()])).collect());
                        }
                        Err(p) => ev["panic"] = json!(p),
                    }

                    if corrupt > 0 && id == corrupt && ev.get("state_tz").is_some() {
                        let k = ev["state_tz"].as_str().unwrap().to_string();
                        ev["state_tz"] = json!(if k == "open" { "closed" } else { "open" });
                    }

                    println!("{ev}");
                }
            }
        }
    }
}
