//! Helpers shared by the topics.

use std::panic::{catch_unwind, AssertUnwindSafe};

use serde_json::Value;

/// Run `f`, turning a panic into `Err(message)`.
pub fn guarded<T>(f: impl FnOnce() -> T) -> Result<T, String> {
    catch_unwind(AssertUnwindSafe(f)).map_err(|e| {
        if let Some(s) = e.downcast_ref::<&str>() {
            s.to_string()
        } else if let Some(s) = e.downcast_ref::<String>() {
            s.clone()
        } else {
            "panic".to_string()
        }
    })
}

pub fn read_json(path: &str) -> Value {
    let data = std::fs::read_to_string(path).unwrap_or_else(|e| {
        eprintln!("cannot read {path}: {e}");
        std::process::exit(2)
    });

    serde_json::from_str(&data).unwrap_or_else(|e| {
        eprintln!("cannot parse {path}: {e}");
        std::process::exit(2)
    })
}

pub fn read_ndjson(path: &str) -> Vec<Value> {
    let data = std::fs::read_to_string(path).unwrap_or_else(|e| {
        eprintln!("cannot read {path}: {e}");
        std::process::exit(2)
    });

    data.lines()
        .filter(|l| !l.trim().is_empty())
        .map(|l| {
            serde_json::from_str(l).unwrap_or_else(|e| {
                eprintln!("cannot parse line of {path}: {e}");
                std::process::exit(2)
            })
        })
        .collect()
}

/// Collects mismatches (bounded) and prints the final summary line.
pub struct Report {
    pub evaluations: u64,
    pub mismatches: u64,
    pub nontrivial: u64,
    printed: u64,
}

impl Report {
    pub fn new() -> Self {
        Report { evaluations: 0, mismatches: 0, nontrivial: 0, printed: 0 }
    }

    pub fn mismatch(&mut self, v: Value) {
        self.mismatches += 1;

        if self.printed < 200 {
            self.printed += 1;
            println!("MISMATCH {v}");
        }
    }

    pub fn finish(&self, extra: Value) {
        println!(
            "SUMMARY {}",
            serde_json::json!({
                "evaluations": self.evaluations,
                "mismatches": self.mismatches,
                "nontrivial": self.nontrivial,
                "extra": extra,
            })
        );
    }
}

/// Run `f` on another thread and give up after `secs` seconds (the thread is abandoned: it is
/// only killed when the process exits). Also returns the number of schedule_at calls it made.
pub fn with_timeout<T: Send + 'static>(secs: u64, f: impl FnOnce() -> T + Send + 'static) -> Option<(T, u64)> {
    let (tx, rx) = std::sync::mpsc::channel();

    std::thread::Builder::new()
        .stack_size(64 << 20)
        .spawn(move || {
            let _ = opening_hours::verif::take_stats();
            let res = f();
            let work = opening_hours::verif::take_stats().schedule_at_calls;
            let _ = tx.send((res, work));
        })
        .expect("cannot spawn a thread");

    rx.recv_timeout(std::time::Duration::from_secs(secs)).ok()
}
