"""C01 day schedules follow the documented rule semantics.
MC: Calendar.tla sanity (round trip, ISO weeks, Easter anchors, 400-year period), MC_DayEval (fold = declarative reading).
TRACE: the repository's corpus (sample file + every parsable test literal) and seeded structured random expressions are
evaluated by the real code on critical and random days; TLC recomputes every day schedule from the logged AST with
DayEval.tla and compares wherever Det(...) holds."""
import json
import os

import vlib
from checks import common, dayeval_common

PID = "C01"


def run(tier, corrupt=0):
    c = vlib.Check(PID, "model_checking", tier, selftest=bool(corrupt))
    vlib.build_harness()
    common.mc_phase(c, "MC_Calendar", cfg="MC_Calendar" if tier == "quick" else "MC_Calendar_thorough",
                    workers=1 if tier == "quick" else vlib.NCPU, require_actions=False)
    common.mc_phase(c, "MC_Selectors", workers=4, require_actions=False, timeout=600)
    vlib.tlc_expect_violation("MC_Selectors", cfg="MC_Selectors_wrong", workers=1)
    if os.path.exists(os.path.join(vlib.SPEC, "MC_DayEval.cfg")):
        common.mc_phase(c, "MC_DayEval", cfg="MC_DayEval" if tier == "quick" else "MC_DayEval_thorough",
                        workers=8 if tier == "quick" else vlib.NCPU, require_actions=False, timeout=3600, heap="8g")
    nv = vlib.tlc_expect_violation("MC_DayEval", cfg="MC_DayEval_wrong", workers=2)
    c.setv("nonvacuity", "MC_DayEval_wrong (base = first instead of last matching normal rule): TLC finds a disagreement (%s)"
           % ",".join(nv.invariant_violated))
    n, days, shards = (700, 14, 12) if tier == "quick" else (20000, 24, 16)
    lines = dayeval_common.record(c, "corpus", "corpus", 0, days)
    ncorpus = len(lines)
    lines += dayeval_common.record(c, "random", "random", n, days, corrupt=corrupt)
    # every selector kind and syntactic variant derived by TLC from Grammar.tla (incl. the boundary-date family)
    cases = os.path.join(vlib.WORK, "c01_cases.ndjson")
    vlib.tlc_ok("Gen_Grammar", env={"OUT": cases}, heap="8g")
    ngen = len(lines)
    lines += dayeval_common.record_cases(c, cases, 3 if tier == "quick" else 1, days)
    mix_path, _ = common.rule_mix_cases(c, 120 if tier == "quick" else 12)
    lines += dayeval_common.record_cases(c, mix_path, 1, days)
    c.setv("generated_sentences_evaluated", len(lines) - ngen)
    # ids must be unique across the two recordings
    fixed = []
    for i, l in enumerate(lines):
        e = json.loads(l)
        e["id"] = i + 1
        fixed.append(json.dumps(e))
    tot = dayeval_common.validate(c, fixed, shards, "kind")
    c.add("traces_validated_against_impl", len(fixed))
    c.add("evaluations", tot["ok"] + tot["undet"] + tot["kind"] + tot["comment"])
    c.add("distinct_nontrivial", tot["nontrivial"])
    c.setv("days_compared", tot["ok"] + tot["kind"] + tot["comment"])
    c.setv("days_skipped_undetermined", tot["undet"])
    c.setv("corpus_expressions", ncorpus)
    for l in fixed[:1] + fixed[ncorpus:ncorpus + 2]:
        e = json.loads(l)
        c.sample({"src": e["src"], "ctx_events": e["ctx"]["events"], "n_ph": len(e["ctx"]["ph"]), "days": e["days"][:6],
                  "tilings": e["tilings"][:2]})
    c.setv("rule", "events = (expression, context) pairs; evaluations = (expression, day) pairs on which schedule_at's tiling was "
                   "compared with DayTiling of DayEval.tla; distinct_nontrivial = compared days whose tiling has more than one period; "
                   "days on which the documented semantics leave the result open (Det false) are skipped and counted. Days: "
                   "critical dates of the expression (every selector bound +-1 in the years it mentions and in 2020/21/24), range "
                   "bounds 1900-01-01 / 9999-12-31, random days 1900..9999, consecutive days (spills).")
    c.assumptions += ["TLC evaluates Calendar/Selectors/TimeSel/Schedule/DayEval.tla correctly",
                      "the AST logged by the harness is the one the library evaluated (astjson.rs reads the public fields)",
                      "semantics as transcribed in DESIGN.md appendix A; corners listed in 6.1 are skipped",
                      "holiday calendars and (synthetic) sun-event times are supplied through the public Context / Localize API"]
    return c.finish()


def selftest(tier):
    rc = run("quick", corrupt=5)
    print("selftest: corrupted trace %s" % ("REJECTED (good)" if rc == 1 else "ACCEPTED (BAD)"))
    return 0 if rc == 1 else 2


def replay(rec):
    print(json.dumps({k: v for k, v in rec["case"].items() if k != "expr"}, indent=1)[:3000])
    return run("quick")
