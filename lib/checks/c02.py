"""C02 interval stream equals pointwise evaluation.
MC: machine M3 (MC_Iterator) over a tiny calendar - every assignment of day tilings x every window x every sound hint choice;
an unsound hint must give a counterexample. TRACE: iter_range / iter_from of the real code on corpus, hint-branch family and
random expressions; every day of every window is evaluated with schedule_at and Trace_Iter rebuilds the declarative stream."""
import json

import vlib
from checks import common, iter_common

PID = "C02"
WANTED = {"stream", "range"}


def run(tier, corrupt=0):
    c = vlib.Check(PID, "model_checking", tier, selftest=bool(corrupt))
    vlib.build_harness()
    common.mc_phase(c, "MC_Iterator", cfg="MC_Iterator" if tier == "quick" else "MC_Iterator_thorough", workers=vlib.NCPU,
                    timeout=3600, heap="12g")
    nv = vlib.tlc_expect_violation("MC_Iterator", cfg="MC_Iterator_unsound", workers=4)
    c.setv("nonvacuity", "MC_Iterator_unsound (hint may skip anything): TLC finds a counterexample (%s)" % ",".join(nv.invariant_violated))
    # is_constant (the "never changes" shortcut) is sound: every rule sequence <= 3 (quick) / <= 4 (thorough) of an alphabet with rules
    # lacking a day selector; the clause the pinned repair of R1 lacked is refuted by TLC (R16)
    common.mc_phase(c, "MC_DayEval", cfg="MC_DayEval_const" if tier == "quick" else "MC_DayEval_const_thorough", workers=8,
                    require_actions=False, timeout=3600, heap="8g")
    vlib.tlc_expect_violation("MC_DayEval", cfg="MC_DayEval_const_nv", workers=4)       # some constant expression has a fallback rule
    vlib.tlc_expect_violation("MC_DayEval", cfg="MC_DayEval_const_r1", workers=4)       # the incomplete repair is refuted
    n, procs, shards = (1500, 16, 12) if tier == "quick" else (50000, 16, 16)
    lines = iter_common.record_parallel(c, "range", n, procs, corrupt=corrupt,
                                       extra=["--work-budget", 6_000_000 if tier == "quick" else 400_000_000])
    sweep = iter_common.record_sweep(c, "sweep-range", 6 if tier == "quick" else 1, budget=12_000_000 if tier == "quick" else 600_000_000)
    c.setv("family_sweep_events", len(sweep))
    const_cases = iter_common.generate_constant_cases(c)
    iter_common.hints_phase(c, tier, const_cases, corrupt=corrupt)
    gen = iter_common.record_cases(c, "cases-range", const_cases, 8 if tier == "quick" else 1)
    c.setv("generated_constant_shaped_events", len(gen))
    lines = iter_common.renumber(lines + sweep + gen)
    verdicts, nint, nruns, nontrivial = iter_common.validate(c, lines, shards, "interval stream")
    c.mismatches = [m for m in c.mismatches if m["case"]["verdict"] in WANTED]
    c.add("traces_validated_against_impl", len(lines))
    c.add("evaluations", len(lines))
    c.add("distinct_nontrivial", nontrivial)
    c.setv("verdicts", dict(verdicts))
    c.setv("intervals_compared", nint)
    c.setv("schedule_runs_examined", nruns)
    for l in lines[:2] + lines[-1:]:
        e = json.loads(l)
        c.sample({k: e.get(k) for k in ("src", "from", "to", "intervals") if k in e})
    c.setv("rule", "one event = one window [from, to) of one (expression, context): the emitted intervals are compared with the stream "
                   "rebuilt by TLC from schedule_at of EVERY day of the window (run-length encoded); windows: inverted/empty, minutes, "
                   "days to 500 days, open-ended (to = 10000-01-01) cut after 60 (12 for long ones, up to 160000 days) intervals with "
                   "one more day examined beyond the cut. distinct_nontrivial = accepted events with more than one interval or run.")
    c.assumptions += ["TLC evaluates Iterator.tla / Trace_Iter.tla correctly",
                      "the oracle is the library's own schedule_at, as the property states (independent of C01's oracle)",
                      "NoLocation-like contexts (holiday calendars, synthetic sun events); time zones are C09's business"]
    return c.finish()


def selftest(tier):
    rc = run("quick", corrupt=7)
    print("selftest: corrupted trace %s" % ("REJECTED (good)" if rc == 1 else "ACCEPTED (BAD)"))
    return 0 if rc == 1 else 2


def replay(rec):
    print(json.dumps({k: v for k, v in rec["case"].items() if k not in ("expr", "sched")}, indent=1)[:3000])
    return run("quick")
