"""C03 state and next_change are mutually consistent.
MC: FirstOk of MC_Iterator (first interval of the open-ended stream = state / next_change). TRACE: state, is_open/closed/unknown
and next_change of the real code at critical, random and sub-minute instants; Trace_Iter re-derives both from schedule_at of
every day up to the answer (+1 day), or up to a horizon that proves 'no change until 10000-01-01' (400-year periodicity after
the last explicit year when the expression has no Easter / year step)."""
import json

import vlib
from checks import common, iter_common

PID = "C03"
WANTED = {"state", "flags", "next_change", "next_change_range"}


def run(tier, corrupt=0):
    c = vlib.Check(PID, "model_checking", tier, selftest=bool(corrupt))
    vlib.build_harness()
    common.mc_phase(c, "MC_Iterator", cfg="MC_Iterator", workers=vlib.NCPU, timeout=3600, heap="12g")
    n, procs, shards = (1200, 16, 12) if tier == "quick" else (40000, 16, 16)
    lines = iter_common.record_parallel(c, "point", n, procs, corrupt=corrupt,
                                       extra=["--work-budget", 6_000_000 if tier == "quick" else 400_000_000])
    sweep = iter_common.record_sweep(c, "sweep-point", 6 if tier == "quick" else 1, budget=12_000_000 if tier == "quick" else 600_000_000)
    c.setv("family_sweep_events", len(sweep))
    gen = iter_common.record_cases(c, "cases-point", iter_common.generate_constant_cases(c), 8 if tier == "quick" else 1)
    c.setv("generated_constant_shaped_events", len(gen))
    lines = iter_common.renumber(lines + sweep + gen)
    verdicts, nint, nruns, nontrivial = iter_common.validate(c, lines, shards, "state/next_change")
    c.mismatches = [m for m in c.mismatches if m["case"]["verdict"] in WANTED]
    c.add("traces_validated_against_impl", len(lines))
    c.add("evaluations", len(lines))
    c.add("distinct_nontrivial", nontrivial)
    c.setv("verdicts", dict(verdicts))
    c.setv("unverified_none_answers", verdicts.get("unverified", 0))
    for l in lines[:3]:
        e = json.loads(l)
        c.sample({k: e.get(k) for k in ("src", "t", "state", "flags", "next_change", "complete") if k in e})
    c.setv("rule", "one event = (expression, context, instant): state, the three predicates and next_change; 'unverified' = the "
                   "answer is none (or beyond the recording budget) and no finite horizon proves it (Easter, year steps), counted "
                   "separately; distinct_nontrivial = accepted events whose recorded schedules have more than one run.")
    c.assumptions += ["as C02; 'none' answers are confirmed on a finite horizon by the 400-year periodicity of the Gregorian calendar "
                      "(MC_Calendar Period400) after the last explicit year / holiday"]
    return c.finish()


def selftest(tier):
    rc = run("quick", corrupt=7)
    print("selftest: corrupted trace %s" % ("REJECTED (good)" if rc == 1 else "ACCEPTED (BAD)"))
    return 0 if rc == 1 else 2


def replay(rec):
    print(json.dumps({k: v for k, v in rec["case"].items() if k not in ("expr", "sched")}, indent=1)[:3000])
    return run("quick")
