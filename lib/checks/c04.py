"""C04 totality: no input makes the library panic or run unboundedly.
Totality.tla: outcome alphabet {ok, err} and the work bound (day schedules computed <= days to 10000-01-01 + c). Inputs chosen by the
specification: every sentence and corruption of Gen_Grammar, numeric extremes in every numeric slot and every single-character
prefix / deletion / duplication / swap of representative sentences (Gen_Totality); plus corpus, random expressions with all corners and
seeded byte / Unicode noise. Calls: parse, Display, normalize, is_constant, schedule_at, state, next_change, iter_from.take(5) at
NaiveDateTime::MIN / MAX, years +-262000, both bounds +-1 min, leap day, DST night, random instants, under default / dense-holiday /
interval-size-bound (0, 1 day, 30 years, TimeDelta::MAX) / time-zone + coordinates (poles, antimeridian, 69.6 N) contexts; each call under
catch_unwind on a watchdog thread with the hook's work counter. Trace_Totality accepts only ReturnOk / ReturnErr within the work bound."""
import collections
import concurrent.futures as cf
import json
import os

import vlib

PID = "C04"


def _is_perf(m):
    return False


def run(tier, corrupt=0):
    c = vlib.Check(PID, "exploration", tier, selftest=bool(corrupt))
    vlib.build_harness()
    # design-level termination of the interval iterator (machine M3): a variant function decreases on every step whatever the
    # hint, and under weak fairness every behaviour reaches "done"
    r = vlib.tlc_ok("MC_Iterator", cfg="MC_Iterator_live", workers=4, heap="4g", timeout=1800)
    c.add_tlc(r)
    vlib.tlc_expect_violation("MC_Iterator", cfg="MC_Iterator_live_nv", workers=2)
    c.setv("iterator_termination_model", "MC_Iterator_live: PROPERTIES Terminates (<>done under WF) and Decreases (variant) hold on %d "
                                         "states; a coarser variant is refuted (non-vacuity)" % r.distinct)
    cases = os.path.join(vlib.WORK, "c04_cases.ndjson")
    vlib.tlc_ok("Gen_Grammar", env={"OUT": cases}, heap="8g")
    extremes = os.path.join(vlib.WORK, "c04_extremes.ndjson")
    g = vlib.tlc_ok("Gen_Totality", env={"OUT": extremes}, heap="4g")
    procs = 16
    every, noise, rnd, light = (8, 300, 150, 3) if tier == "quick" else (1, 3000, 1500, 2)

    def one(i):
        path = os.path.join(vlib.WORK, "c04_trace_%02d.ndjson" % i)
        vlib.ohv(["record", "total", "--seed", c.seed, "--cases", cases, "--extremes", extremes, "--every", every, "--noise", noise,
                  "--random", rnd, "--light", light, "--extremes-every", 3 if tier == "quick" else 1, "--part", i, "--parts", procs], stdout_path=path, timeout=14400)
        return path

    with cf.ThreadPoolExecutor(max_workers=procs) as ex:
        paths = list(ex.map(one, range(procs)))
    lines = []
    for p in paths:
        lines += open(p).read().splitlines()
    if corrupt:
        e = json.loads(lines[corrupt])
        e["calls"][0][1] = "panic: injected by the self-test"
        lines[corrupt] = json.dumps(e)
    # panics seen by the recorders of the other topics are C04's business too (their own checks skip such events)
    other_panics = []
    for topic, args in (("tz", ["--zones", 16 if tier == "quick" else 200, "--transitions", 3]),
                        ("iter", ["--mode", "bounds", "--n", 300 if tier == "quick" else 5000, "--work-budget", 4_000_000]),
                        ("dayeval", ["--mode", "random", "--n", 200 if tier == "quick" else 5000, "--days", 8])):
        path = os.path.join(vlib.WORK, "c04_other_%s.ndjson" % topic)
        vlib.ohv(["record", topic, "--seed", c.seed] + args, stdout_path=path, timeout=7200)
        nev = 0
        for l in open(path):
            e = json.loads(l)
            nev += 1
            ps = ([e["panic"]] if "panic" in e else []) + [p.get("panic") for p in e.get("panics", [])]
            for p_ in ps:
                other_panics.append((topic, p_, e))
        c.add("evaluations", nev)
    for topic, p_, e in other_panics[:40]:
        c.mismatch("panic seen while recording the %s trace: %s (%s)" % (topic, str(p_)[:150], json.dumps(
            {k: e.get(k) for k in ("src", "zone", "t_utc", "from", "to", "t", "input_zone") if k in e})[:300]),
            {"topic": topic, "panic": p_, "event": {k: e.get(k) for k in ("src", "zone", "t_utc", "from", "to", "t", "input_zone", "ctx")}})
    c.setv("panics_in_other_traces", len(other_panics))
    res, mism, acc = vlib.validate_traces("Trace_Totality", vlib.shard_lines(lines, 16, "c04_shard"), heap="3g")
    if acc != len(lines):
        raise vlib.ToolError("Trace_Totality consumed %d of %d events" % (acc, len(lines)))
    ncalls, parsed, maxwork = 0, 0, 0
    for r in res:
        c.add_tlc(r)
        for s in r.printed("STAT"):
            ncalls += s["calls"]
            parsed += 1 if s["parsed"] else 0
            maxwork = max(maxwork, s["maxwork"])
    for m in mism:
        for call in m["calls"]:
            c.mismatch("%s -> %s (work %s, bound %s + 8) on input %r" % (call[0], call[1], call[2], call[3], m["input"][:200]),
                       {"input": m["input"], "call": call})
    c.add("evaluations", ncalls)
    c.add("distinct_nontrivial", len({json.loads(l)["input"] for l in lines}))
    c.setv("inputs", len(lines))
    c.setv("inputs_that_parse", parsed)
    c.setv("max_day_schedules_in_one_call", maxwork)
    c.setv("spec_chosen_inputs", "Gen_Grammar sentences (every %d-th) + %d numeric-extreme / mutation strings" % (every, sum(1 for _ in open(extremes))))
    for l in lines[:2] + lines[-1:]:
        e = json.loads(l)
        c.sample({"input": e["input"][:120], "calls": e["calls"][:4]})
    c.setv("rule", "evaluations = API calls executed under catch_unwind + watchdog; distinct_nontrivial = distinct input strings")
    c.assumptions += ["TLA+ says nothing about Rust panics: the specification contributes the structured input space and the acceptance rule "
                      "(weakest fit of the technique, stated in DESIGN.md)", "watchdog 30 s per call; work measured by the cfg(ohrs_verif) counter"]
    return c.finish(matchers=MATCHERS)


MATCHERS = {}


def selftest(tier):
    rc = run("quick", corrupt=3)
    print("selftest: corrupted trace %s" % ("REJECTED (good)" if rc == 1 else "ACCEPTED (BAD)"))
    return 0 if rc == 1 else 2


def replay(rec):
    print(json.dumps(rec, indent=1)[:3000])
    return run("quick")
