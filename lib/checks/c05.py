"""C05 the parser accepts the supported grammar and builds the denoted expression.
GEN: Grammar.tla gives every AST node kind its spelling under each documented relaxation; Gen_Grammar enumerates bounded families
(every selector kind and syntactic variant alone, pairs/triples of selector kinds, all modifier/comment combinations, rule sequences
<= 3 with every separator) x spelling variants, with the AST each sentence denotes, plus single-field corruptions and the documented
unsupported constructs; TLC checks the generator is unambiguous. The harness parses every sentence with the real parser and compares
the AST field by field (or requires an error)."""
import json
import os

import vlib
from checks import common

PID = "C05"


def run(tier, corrupt=0):
    c = vlib.Check(PID, "other", tier, selftest=bool(corrupt))
    vlib.build_harness()
    path = os.path.join(vlib.WORK, "c05_cases.ndjson")
    g = vlib.tlc_ok("Gen_Grammar", env={"OUT": path}, heap="8g")
    lines = open(path).read().splitlines()
    if corrupt:
        # self-test: falsify the denotation of one sentence
        e = json.loads(lines[corrupt])
        if e.get("expect") == "accept":
            e["ast"]["rules"][0]["kind"] = "unknown" if e["ast"]["rules"][0]["kind"] != "unknown" else "closed"
            e["comment_only"] = [False] * len(e["comment_only"])
        lines[corrupt] = json.dumps(e)
        open(path, "w").write("\n".join(lines) + "\n")
    s = common.harness_replay(c, "grammar", path)
    c.setv("accepted_sentences", s["extra"]["accepted"])
    c.setv("rejected_sentences", s["extra"]["rejected"])
    c.setv("printer_spec_exact", s["extra"].get("display_exact"))     # Display.tla == real to_string() (diagnostic)
    c.setv("printer_spec_differences", s["extra"].get("display_diffs", [])[:5])
    for l in (lines[0], lines[len(lines) // 2], lines[-1]):
        e = json.loads(l)
        c.sample({"text": e["text"], "expect": e["expect"]})
    c.setv("exhaustive", True)
    c.setv("explanation", "bounded-exhaustive generation from the TLA+ grammar specification (Grammar.tla / Gen_Grammar.tla): TLC "
                          "enumerates the families and computes sentence + denoted AST, checks the generator unambiguous; the harness "
                          "replays every sentence through the real parser and compares ASTs (JSON equality) or requires Err")
    c.setv("rule", "every sentence is distinct (set semantics in TLC); a sentence is non-trivial by construction (each exercises a "
                   "selector variant, a spelling relaxation, a separator/modifier combination or a corruption)")
    c.assumptions += ["TLC evaluates Grammar.tla correctly", "the supported grammar is transcribed from grammar.pest and its documented relaxations (no OSM wiki offline)",
                      "the kind of a comment-only rule is not compared (left open)"]
    return c.finish()


def selftest(tier):
    rc = run("quick", corrupt=100)
    print("selftest: corrupted case %s" % ("REJECTED (good)" if rc == 1 else "ACCEPTED (BAD)"))
    return 0 if rc == 1 else 2


def replay(rec):
    print(json.dumps(rec, indent=1)[:3000])
    return run("quick")
