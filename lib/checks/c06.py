"""C06 printed expressions parse back to an equivalent expression.
Inputs: every sentence Gen_Grammar derives from Grammar.tla, the repository corpus, seeded random expressions, and the NORMAL FORM of
each. For each: print with the library, reparse, evaluate both on probe days straddling every selector bound of both expressions under
holiday / sun-event contexts. Trace_Print (TLC) decides: reparse succeeded, tilings pairwise equal, comments equal up to joining; it
also evaluates both ASTs with DayEval.tla as a diagnostic. Python str/repr are covered by C12."""
import collections
import json
import os

import vlib

PID = "C06"


def run(tier, corrupt=0):
    c = vlib.Check(PID, "translation_validation", tier, selftest=bool(corrupt))
    vlib.build_harness()
    cases = os.path.join(vlib.WORK, "c06_cases.ndjson")
    vlib.tlc_ok("Gen_Grammar", env={"OUT": cases}, heap="8g")
    n, days, shards = (500, 10, 12) if tier == "quick" else (20000, 16, 16)
    path = os.path.join(vlib.WORK, "c06_trace.ndjson")
    args = ["record", "print", "--seed", c.seed, "--n", n, "--days", days, "--cases", cases]
    if corrupt:
        args += ["--corrupt", corrupt]
    vlib.ohv(args, stdout_path=path, timeout=7200)
    lines = open(path).read().splitlines()
    by_id = {}
    for l in lines:
        e = json.loads(l)
        by_id[e["id"]] = e
    res, mism, acc = vlib.validate_traces("Trace_Print", vlib.shard_lines(lines, shards, "c06_shard"))
    if acc != len(lines):
        raise vlib.ToolError("Trace_Print consumed %d of %d events" % (acc, len(lines)))
    verdicts, days_cmp, spec_diff, not_same_ast = collections.Counter(), 0, 0, 0
    for r in res:
        c.add_tlc(r)
        for s in r.printed("STAT"):
            verdicts[s["v"]] += 1
            days_cmp += s["days"]
            spec_diff += 0 if s["spec_same"] else 1
            not_same_ast += 0 if s["same_ast"] else 1
    for m in mism:
        e = by_id[m["id"]]
        diff = []
        if e["reparse"] == "ok":
            diff = [(d, a, b) for d, a, b in zip(e["days"], e["tilings1"], e["tilings2"]) if a != b][:3]
        c.mismatch("printed form %r of %s%r: %s %s" % (e["printed"], "normal form of " if e["normalized"] else "", e["src"], m["what"],
                                                       e.get("error", "")[:120].replace("\n", " ")),
                   {"src": e["src"], "normalized": e["normalized"], "printed": e["printed"], "what": m["what"],
                    "error": e.get("error"), "differences": diff, "ctx": e["ctx"]})
    c.add("programs", len(lines))
    c.add("disagreements_checked", len(lines))
    c.add("evaluations", days_cmp)
    c.add("distinct_nontrivial", len({json.loads(l)["printed"] for l in lines}))
    c.setv("verdicts", dict(verdicts))
    c.setv("reparsed_ast_differs_but_equivalent", not_same_ast)
    c.setv("spec_diagnostic_differences", spec_diff)
    for l in lines[:1] + lines[len(lines) // 2:len(lines) // 2 + 2]:
        e = json.loads(l)
        c.sample({k: e.get(k) for k in ("src", "normalized", "printed", "reparse", "same_ast")})
    c.setv("rule", "programs = (expression | its normal form) printed and reparsed; evaluations = (expression, day) pairs on which both "
                   "tilings were compared; distinct_nontrivial = distinct printed strings")
    c.assumptions += ["equivalence is decided on probe days (every selector bound of both expressions +-1 day in the years they "
                      "mention and in 2020/21/24, range bounds, random days), not on all days",
                      "the verdict is differential on the library's own evaluation; DayEval.tla only adds a diagnostic"]
    return c.finish()


def selftest(tier):
    rc = run("quick", corrupt=9)
    print("selftest: corrupted trace %s" % ("REJECTED (good)" if rc == 1 else "ACCEPTED (BAD)"))
    return 0 if rc == 1 else 2


def replay(rec):
    print(json.dumps(rec, indent=1)[:3000])
    return run("quick")
