"""C07 normalisation does not change the meaning of an expression.
MC: the paving machine M4 (Normalize.tla: cut_at / set / is_val / pop_filter / days_covered, emission order and operator choice) on every
sequence of <= 2 (quick) / <= 3 (thorough) canonical rules over a 2-D domain: the normal form means the same; with the pinned tree's is_val
TLC finds the counterexample (R5). GEN: every enumerated rule sequence is normalised by the real code and its printed normal form compared
with the model's. TRACE: corpus, model sentences and random expressions (canonical / non-canonical mixed): the run-length encoded day
schedules of e and normalize(e) over whole sample years between the year cut points of both must be equal."""
import json

import vlib
from checks import common, norm_common

PID = "C07"


def run(tier, corrupt=0):
    c = vlib.Check(PID, "model_checking", tier, selftest=bool(corrupt))
    vlib.build_harness()
    extra, cases = norm_common.model_phase(c, tier)
    lines, by_id, mism, verdicts, changed, windows = norm_common.trace_phase(c, tier, extra, corrupt)
    for m in mism:
        if m["what"] != "meaning":
            continue
        e = by_id[m["id"]]
        c.mismatch("normalize changed the meaning of %r -> %r: %s" % (e["src"], e.get("printed"), json.dumps(m["diff"])[:300]),
                   {"src": e["src"], "printed": e.get("printed"), "ctx": e["ctx"], "diff": m["diff"], "expr": e["expr"]})
    # values with a history (Session.tla): the normal form of a value that carries a context (holidays, sun events, an
    # interval-size bound) keeps that context - its reference is the same value built afresh WITHOUT normalisation
    common.session_phase(c, 600 if tier == "quick" else 12000, plain_ref=True)
    c.add("traces_validated_against_impl", len(lines))
    c.add("evaluations", windows)
    c.add("distinct_nontrivial", changed)
    c.setv("verdicts", dict(verdicts))
    for l in lines[:1] + lines[-2:]:
        e = json.loads(l)
        c.sample({"src": e["src"], "printed": e.get("printed"), "windows": e.get("windows", [])[:3]})
    c.sample(cases[len(cases) // 3])
    c.setv("rule", "evaluations = day windows (whole years / probe days) on which the run-length encoded schedules of the expression and "
                   "of its normal form were compared; distinct_nontrivial = expressions whose normal form differs from the input")
    c.assumptions += ["differential on the library's own evaluation", "whole sample years: first, second, last and first leap year of every "
                      "segment between year cut points of both expressions (capped at 10 years) + 2020/21/24/26 + probe days",
                      "the paving model is 2-D (time x day); the real paving is 5-D"]
    return c.finish()


def selftest(tier):
    rc = run("quick", corrupt=4)
    print("selftest: corrupted trace %s" % ("REJECTED (good)" if rc == 1 else "ACCEPTED (BAD)"))
    return 0 if rc == 1 else 2


def replay(rec):
    print(json.dumps({k: v for k, v in rec["case"].items() if k != "expr"}, indent=1)[:3000])
    return run("quick")
