"""C08 supported date range: closed outside 1900..9999, results never leave it.
MC: RangeOk / FirstOk of MC_Iterator (day 0 = before the range, day N+1 = 10000-01-01, windows starting and ending outside).
TRACE: range and point events at both bounds (+-1 minute, +-1 day) and far outside (years -262000 .. 262000) with expressions
whose selectors straddle the bounds; Trace_Iter with the real bounds."""
import json

import vlib
from checks import common, iter_common

PID = "C08"


def run(tier, corrupt=0):
    c = vlib.Check(PID, "model_checking", tier, selftest=bool(corrupt))
    vlib.build_harness()
    common.mc_phase(c, "MC_Iterator", cfg="MC_Iterator", workers=vlib.NCPU, timeout=3600, heap="12g")
    n, procs, shards = (1000, 16, 12) if tier == "quick" else (30000, 16, 16)
    lines = iter_common.record_parallel(c, "bounds", n, procs, corrupt=corrupt,
                                       extra=["--work-budget", 6_000_000 if tier == "quick" else 400_000_000])
    verdicts, nint, nruns, nontrivial = iter_common.validate(c, lines, shards, "supported date range")
    outside = 0
    for l in lines:
        e = json.loads(l)
        t = e.get("t") or e.get("from")
        if t and (t[0] < -25567 or t[0] >= 2932897 - 1):
            outside += 1
    c.add("traces_validated_against_impl", len(lines))
    c.add("evaluations", len(lines))
    c.add("distinct_nontrivial", outside)
    c.setv("verdicts", dict(verdicts))
    for l in lines[:3]:
        e = json.loads(l)
        c.sample({k: e.get(k) for k in ("src", "what", "t", "from", "to", "state", "next_change", "intervals") if k in e})
    c.setv("rule", "events whose instants lie at both bounds of 1900-01-01 .. 10000-01-01 (+-1 min, +-1 day, +-800 days) or far outside; "
                   "every verdict of Trace_Iter counts (closed outside, no interval beyond the clamped window, next_change < END, "
                   "first non-closed instant from before 1900); distinct_nontrivial = events starting outside or on the last day.")
    c.assumptions += ["as C02/C03"]
    return c.finish()


def selftest(tier):
    rc = run("quick", corrupt=7)
    print("selftest: corrupted trace %s" % ("REJECTED (good)" if rc == 1 else "ACCEPTED (BAD)"))
    return 0 if rc == 1 else 2


def replay(rec):
    print(json.dumps({k: v for k, v in rec["case"].items() if k not in ("expr", "sched")}, indent=1)[:3000])
    return run("quick")
