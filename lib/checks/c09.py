"""C09 time-zone contexts evaluate on local wall-clock time and map results back.
MC: Localize.tla (Naive / Datetime with latest-on-fold and minute stepping over gaps) over every zone table with <= 2 transitions of
+-1..3 ticks on a 22-tick timeline: wall clock shown, latest chosen, gap stepping, monotonicity. TRACE: zones of chrono-tz (incl.
Lord_Howe, Apia, Kwajalein, Kathmandu, St_Johns ...) around their transitions 1970-2037; the zone's offset table is extracted from
chrono-tz and logged; the localized state / next_change / intervals (input given in UTC / Tokyo / New_York / Lord_Howe) must equal the
naive API at the wall-clock time mapped through the spec's Datetime."""
import collections
import json
import os

import vlib
from checks import common

PID = "C09"


def run(tier, corrupt=0):
    c = vlib.Check(PID, "model_checking", tier, selftest=bool(corrupt))
    vlib.build_harness()
    common.mc_phase(c, "MC_Localize", workers=8)
    zones, trans, shards = (22, 3, 16) if tier == "quick" else (700, 6, 16)
    path = os.path.join(vlib.WORK, "c09_trace.ndjson")
    args = ["record", "tz", "--seed", c.seed, "--zones", zones, "--transitions", trans]
    if corrupt:
        args += ["--corrupt", corrupt]
    vlib.ohv(args, stdout_path=path, timeout=7200)
    lines = open(path).read().splitlines()
    by_id = {}
    zones_seen = set()
    for l in lines:
        e = json.loads(l)
        by_id[e["id"]] = e
        zones_seen.add(e["zone"])
    res, mism, acc = vlib.validate_traces("Trace_Localize", vlib.shard_lines(lines, shards, "c09_shard"), heap="3g", timeout=7200)
    if acc != len(lines):
        raise vlib.ToolError("Trace_Localize consumed %d of %d events" % (acc, len(lines)))
    verdicts, near, special = collections.Counter(), 0, 0
    for r in res:
        c.add_tlc(r)
        for s in r.printed("STAT"):
            verdicts[s["v"]] += 1
            near += 1 if s["near"] else 0
            special += 1 if s["special"] else 0
    for m in mism:
        e = by_id[m["id"]]
        if m["what"] == "harness":
            raise vlib.ToolError("zone table extracted by the harness is not well formed: %s" % e["zone"])
        c.mismatch("%s in %s for %r at utc=%s (input zone %s)" % (m["what"], e["zone"], e["src"][:60], e["t_utc"], e["input_zone"]),
                   {k: e.get(k) for k in ("zone", "src", "table", "t_utc", "input_zone", "naive_t", "state_tz", "state_naive", "next_tz",
                                          "next_naive", "ivs_tz", "ivs_naive")} | {"what": m["what"]})
    c.add("traces_validated_against_impl", len(lines))
    c.add("evaluations", len(lines))
    c.add("distinct_nontrivial", special)
    c.setv("zones", len(zones_seen))
    c.setv("events_within_2h_of_a_transition", near)
    c.setv("verdicts", dict(verdicts))
    c.setv("events_of_zones_with_unseparated_transitions_not_judged", verdicts.get("unseparated", 0))
    for l in lines[:1] + lines[len(lines) // 2:len(lines) // 2 + 1]:
        e = json.loads(l)
        c.sample({k: e.get(k) for k in ("zone", "src", "t_utc", "input_zone", "naive_t", "state_tz", "next_tz", "next_naive", "table")})
    c.setv("rule", "one event = (zone, transition, expression, instant at -2h..+2h (and +-1 day) around the transition, input zone); "
                   "distinct_nontrivial = events whose wall-clock time or an interval bound is ambiguous (fold) or non-existent (gap)")
    c.assumptions += ["the offset table is extracted from chrono-tz by probing offset_from_utc_datetime (12 h steps + bisection): zone rules are data",
                      "transitions are further apart than the wall-clock jumps they cause (checked on every logged table; required for monotonicity; "
                      "the events of a zone whose table breaks it are counted, not judged)",
                      "the naive API is the oracle for the wall-clock evaluation (differential); gap mapping follows the code's minute stepping",
                      "transitions 1970-2037 only (TLC integers are 32-bit seconds)"]
    return c.finish()


def selftest(tier):
    rc = run("quick", corrupt=50)
    print("selftest: corrupted trace %s" % ("REJECTED (good)" if rc == 1 else "ACCEPTED (BAD)"))
    return 0 if rc == 1 else 2


def replay(rec):
    print(json.dumps(rec, indent=1)[:3000])
    return run("quick")
