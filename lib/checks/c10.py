"""C10 embedded holiday calendars equal the source data, per country. Exhaustive: one event per (country, kind) with the full listing,
count, a contains() scan of every day 1990..2085, the first_after chain and the PH/SH selector on every listed date +-1 day, plus the
country table (every two-letter code AA..ZZ, lower case, long names). TLC (Trace_HolidayDB) compares with the source files."""
import collections
import json
import os
import subprocess

import vlib

PID = "C10"


def run(tier, corrupt=0):
    c = vlib.Check(PID, "other", tier, selftest=bool(corrupt))
    vlib.build_harness()
    source = os.path.join(vlib.WORK, "c10_source.json")
    p = subprocess.run([os.path.join(vlib.ROOT, "bin", "holidays_source_json"), source], stdout=subprocess.PIPE, text=True)
    if p.returncode != 0:
        raise vlib.ToolError("cannot convert the holiday source files")
    trace = os.path.join(vlib.WORK, "c10_trace.ndjson")
    vlib.ohv(["record", "holidays"], stdout_path=trace)
    lines = open(trace).read().splitlines()
    if corrupt:
        e = json.loads(lines[corrupt])
        if e["what"] == "calendar" and e["listing"]:
            e["listing"] = e["listing"][1:]          # self-test: one date dropped from a listing
        lines[corrupt] = json.dumps(e)
        open(trace, "w").write("\n".join(lines) + "\n")
    r = vlib.tlc("Trace_HolidayDB", workers=1, env={"TRACE": trace, "SOURCE": source}, deque=True, heap="6g", timeout=1800)
    if r.rc != 0 or not r.no_error:
        vlib.log(r.out[-4000:])
        raise vlib.ToolError("Trace_HolidayDB failed")
    acc = sum(int(d["n"]) for d in r.printed("ACCEPTED"))
    if acc != len(lines):
        raise vlib.ToolError("Trace_HolidayDB consumed %d of %d events" % (acc, len(lines)))
    c.add_tlc(r)
    verdicts, dates, probes = collections.Counter(), 0, 0
    for s in r.printed("STAT"):
        verdicts[s["v"]] += 1
        dates += s["dates"]
        probes += s["probes"]
    for m in r.printed("MISMATCH"):
        c.mismatch("embedded holiday data differs from the source: %s (%s %s)" % (m["what"], m["country"], m["kind"]), m)
    nonempty = sum(1 for l in lines if json.loads(l).get("listing"))
    c.add("evaluations", probes)
    c.add("distinct_nontrivial", nonempty)
    c.add("traces_validated_against_impl", len(lines))
    c.setv("embedded_dates_compared", dates)
    c.setv("source", p.stdout.strip())
    c.setv("verdicts", dict(verdicts))
    c.setv("exhaustive", True)
    e = json.loads(lines[0])
    c.sample({"country": e["country"], "kind": e["kind"], "count": e["count"], "listing_head": e["listing"][:5], "chain_head": e["chain"][:5]})
    c.setv("explanation", "exhaustive extraction through the real decode path (LazyLock -> inflate -> CompactCalendar::deserialize per country) "
                          "compared by TLC with the source files: the specification is the equality Embedded[c][k] = Source[c][k] plus the "
                          "consistency of ALL / iso_code / FromStr; the value is in the exhaustiveness, not in the model")
    c.setv("rule", "evaluations = contains() probes (every day 1990-01-01..2085-12-31 per calendar) + selector probes (listed dates +-1 day) + codes tried; "
                   "distinct_nontrivial = non-empty calendars")
    c.assumptions += ["bin/holidays_source_json only changes the format of the source files (text -> JSON day numbers)",
                      "dates outside 1990..2085 are covered by the listing / first_after chain, not by the contains() scan"]
    return c.finish()


def selftest(tier):
    rc = run("quick", corrupt=10)
    print("selftest: corrupted trace %s" % ("REJECTED (good)" if rc == 1 else "ACCEPTED (BAD)"))
    return 0 if rc == 1 else 2


def replay(rec):
    print(json.dumps(rec, indent=1)[:3000])
    return run("quick")
