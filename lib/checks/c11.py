"""C11 sun events are physically ordered and consistent with coordinates and zone.
Sun.tla states the defaults, the order constraints around mean solar noon (integer arithmetic, equation-of-time bound), the consistency
of local times with the absolute instants and the zone offset, and the acceptance rule for coordinates. TRACE: a latitude x longitude grid
(|lat| <= 60 deg incl. +-59.9, the tropics, the antimeridian) x solstices / equinox / random dates 1900..2100, and the acceptance classes
(NaN, +-inf, +-90, +-90.0001, +-180, +-180.0001, -0.0) with one evaluation for each accepted pair."""
import collections
import json
import os

import vlib

PID = "C11"


def run(tier, corrupt=0):
    c = vlib.Check(PID, "exploration", tier, selftest=bool(corrupt))
    vlib.build_harness()
    lat_step, lon_step, dates, shards = (15, 30, 4, 8) if tier == "quick" else (5, 7, 10, 16)
    path = os.path.join(vlib.WORK, "c11_trace.ndjson")
    args = ["record", "sun", "--seed", c.seed, "--lat-step", lat_step, "--lon-step", lon_step, "--dates", dates]
    if corrupt:
        args += ["--corrupt", corrupt]
    vlib.ohv(args, stdout_path=path, timeout=7200)
    lines = open(path).read().splitlines()
    by_id = {json.loads(l)["id"]: json.loads(l) for l in lines}
    res, mism, acc = vlib.validate_traces("Trace_Sun", vlib.shard_lines(lines, shards, "c11_shard"))
    if acc != len(lines):
        raise vlib.ToolError("Trace_Sun consumed %d of %d events" % (acc, len(lines)))
    verdicts, kinds = collections.Counter(), collections.Counter()
    for r in res:
        c.add_tlc(r)
        for s in r.printed("STAT"):
            verdicts[s["v"]] += 1
            kinds[s["what"]] += 1
    for m in mism:
        e = by_id[m["id"]]
        c.mismatch("sun events: %s at lat=%s lon=%s (1e-4 deg) day=%s zone=%s" % (m["what"], e.get("lat"), e.get("lon"), e.get("day"), e.get("zone")),
                   dict(e, what_failed=m["what"]))
    grid = [json.loads(l) for l in lines if json.loads(l)["what"] == "grid"]
    # transparency: events whose times of day, read without wrapping, are not increasing (dusk after local midnight or dawn before
    # it); the verdict reads the order on the physical time line (DESIGN.md appendix B)
    wrapped = [g for g in grid if "local" in g and not (g["local"][0] < g["local"][1] < g["local"][2] < g["local"][3])]
    c.setv("grid_events_with_an_event_on_the_other_side_of_local_midnight", len(wrapped))
    if wrapped:
        c.setv("example_event_across_local_midnight", {k: wrapped[0].get(k) for k in ("lat", "lon", "day", "zone", "local")})
    c.add("evaluations", len(lines))
    c.add("distinct_nontrivial", len({(e["lat"], e["lon"], e["day"]) for e in grid}))
    c.setv("events_by_kind", dict(kinds))
    c.setv("verdicts", dict(verdicts))
    c.setv("zones_inferred", len({e.get("zone") for e in grid}))
    for e in grid[:2] + grid[-1:]:
        c.sample({k: e.get(k) for k in ("lat", "lon", "day", "zone", "off", "local", "utc", "state_noon", "state_midnight")})
    c.setv("rule", "grid events are distinct (lat, lon, date) triples; each checks the order of the four absolute instants, local = absolute + "
                   "zone offset, the order around mean solar noon +-17 min after unwrapping modulo a day, and the state of `sunrise-sunset` at "
                   "mean solar noon / midnight; acceptance events cover every pair of boundary values and NaN / infinities")
    c.assumptions += ["numeric accuracy of the solar model (crate `sunrise`) is outside the specification: only order and consistency are decided",
                      "|lat| <= 60 deg as in the property; equation of time bounded by 17 min; TLC has no floats: angles are 1e-4 degree integers"]
    return c.finish()


def selftest(tier):
    rc = run("quick", corrupt=60)
    print("selftest: corrupted trace %s" % ("REJECTED (good)" if rc == 1 else "ACCEPTED (BAD)"))
    return 0 if rc == 1 else 2


def replay(rec):
    print(json.dumps(rec, indent=1)[:3000])
    return run("quick")
