"""C12 Python bindings return what the Rust core returns.
MC: PyBinding.tla (decision table M9) total / deterministic / explicit arguments win (ASSUMEs checked by TLC while generating).
GEN: Gen_PyBinding enumerates the constructor argument space (timezone x country x coords x auto_country x auto_timezone x expression,
3168 cases) with the outcome the table defines; py/driver.py executes every case on the real extension (built from /repo's working tree)
with naive / aware datetimes in several zones; `ohv core` evaluates the Rust context the specification names; Trace_PyBinding compares."""
import collections
import json
import os
import shutil
import subprocess

import vlib

PID = "C12"
WALLS = ["2024-07-14T15:00:00", "2024-03-20T06:30:00", "2099-01-01T11:00:00", "2024-10-27T01:30:00"]


def build_extension():
    target = os.path.join(vlib.WORK, "pytarget")
    env = vlib.clean_env()
    env["CARGO_TARGET_DIR"] = target
    env.pop("RUSTFLAGS", None)
    p = subprocess.run(["cargo", "build", "--offline", "--release", "-p", "opening-hours-py", "--lib", "--features", "pyo3/extension-module"],
                       cwd="/repo", env=env, stdout=subprocess.PIPE, stderr=subprocess.STDOUT, text=True, timeout=3600)
    if p.returncode != 0:
        vlib.log(p.stdout[-3000:])
        raise vlib.ToolError("cannot build the Python extension from /repo")
    ext = os.path.join(vlib.WORK, "pyext")
    os.makedirs(ext, exist_ok=True)
    shutil.copy(os.path.join(target, "release", "libopening_hours.so"), os.path.join(ext, "opening_hours.so"))
    return ext


def denull(x):
    if x is None:
        return {"wall": "none", "tz": "none", "utc": -1}      # TLC's Json module has no null, and compares records only with records
    if isinstance(x, list):
        return [denull(y) for y in x]
    if isinstance(x, dict):
        return {k: denull(v) for k, v in x.items()}
    return x


def run(tier, corrupt=0):
    c = vlib.Check(PID, "model_checking", tier, selftest=bool(corrupt))
    vlib.build_harness()
    ext = build_extension()
    table = os.path.join(vlib.WORK, "c12_table.ndjson")
    g = vlib.tlc_ok("Gen_PyBinding", env={"OUT": table}, heap="4g")
    rows = [json.loads(l) for l in open(table)]
    rows.sort(key=lambda r: json.dumps(r, sort_keys=True))
    cases = []
    for i, r in enumerate(rows):
        r["id"] = i + 1
        nwalls = (4 if tier == "thorough" else 3) if (i + c.seed) % (2 if tier == "thorough" else 5) == 0 else 1
        zones = ["naive", "UTC", "Asia/Tokyo"] + ([r["tz"]] if r["tz"] != "none" else [])
        r["datetimes"] = [{"wall": w, "tz": z} for w in WALLS[:nwalls] for z in zones
                          if not (w == WALLS[3] and z != "UTC")]   # the fold instant is only given unambiguously (UTC)
        if r["expr"].startswith("02:30-05:00"):
            # answers that fall into the hour clocks skip / repeat in the zone of the (aware) input or of the context
            r["datetimes"] += [{"wall": "2024-03-31T01:00:00", "tz": "Europe/Paris"}, {"wall": "2024-03-10T01:10:00", "tz": "America/New_York"},
                               {"wall": "2024-10-27T00:30:00", "tz": "Europe/Paris"}, {"wall": "2024-03-30T23:00:00", "tz": "naive"},
                               {"wall": "2024-11-03T00:20:00", "tz": "America/New_York"}, {"wall": "2024-03-31T00:10:00", "tz": "UTC"}]
        cases.append(r)
    if tier == "thorough":
        # more expressions and instants on every constructor combination that builds an evaluator: the table row says which Rust
        # context is equivalent, whatever the (valid) expression
        more_exprs = ["2099 Dec 31 22:00-26:00", "Mo-Fr 10:00-12:00 \"x\" ; PH off", "week 1-53/2 Sa 08:00-20:00", "easter -2 days-easter +1 day",
                      "24/7 ; Dec 25-Jan 5 off \"holidays\"", "sunset-sunrise", "9999Dec", "Jan-Mar Mo[1] 10:00-12:00 unknown",
                      "Mo-Sa 08:00-20:00 ; SH off", "(sunrise+01:00)-(dusk-00:30) ; PH,Su closed", "2020-2030/3 Fr[-1] 22:00-28:00", "Sa,Su 10:00+"]
        more_walls = ["1900-01-01T00:00:00", "1899-12-31T23:59:00", "9999-12-31T23:30:00", "2024-03-31T03:30:00", "2024-12-25T00:00:00",
                      "2031-11-02T01:30:00"]
        ok_rows = [r for r in cases if r["outcome"] == "ok" and r["expr_valid"]]
        c.rng.shuffle(ok_rows)
        nid = len(cases)
        for j, r in enumerate(ok_rows[:400]):
            nid += 1
            clone = dict(r)
            clone["id"] = nid
            clone["expr"] = more_exprs[(j + c.seed) % len(more_exprs)]
            zones = ["naive", "UTC", "America/New_York"] + ([r["tz"]] if r["tz"] != "none" else [])
            year = 2024 + (j * 7 + c.seed) % 12
            rnd = "%d-%02d-%02dT%02d:%02d:00" % (year, 1 + (j * 5) % 12, 1 + (j * 11) % 28, 5 + (j * 13) % 19, (j * 17) % 60)      # never in the small hours, where clocks change
            clone["datetimes"] = [{"wall": w, "tz": z} for w in [more_walls[j % len(more_walls)], more_walls[(j + 3) % len(more_walls)], rnd]
                                  for z in zones if not (w.startswith("2031-11-02") and z != "UTC")]
            cases.append(clone)
        c.setv("thorough_extra_cases", nid - len(rows))
    cpath = os.path.join(vlib.WORK, "c12_cases.ndjson")
    open(cpath, "w").write("\n".join(json.dumps(r) for r in cases) + "\n")
    pypath = os.path.join(vlib.WORK, "c12_py.ndjson")
    with open(pypath, "w") as f:
        p = subprocess.run(["python3", os.path.join(vlib.ROOT, "py", "driver.py"), cpath, ext], stdout=f, stderr=subprocess.PIPE, text=True,
                           timeout=3600, env=vlib.clean_env())
    if p.returncode != 0:
        vlib.log(p.stderr[-3000:])
        raise vlib.ToolError("the Python driver failed")
    rspath = os.path.join(vlib.WORK, "c12_rs.ndjson")
    vlib.ohv(["core", cpath], stdout_path=rspath)
    py = {json.loads(l)["id"]: json.loads(l) for l in open(pypath)}
    rs = {json.loads(l)["id"]: json.loads(l) for l in open(rspath)}
    events = []
    ncalls = 0
    for case in cases:
        p_, r_ = py[case["id"]], rs[case["id"]]
        e = {k: case[k] for k in ("id", "tz", "country", "coords", "auto_country", "auto_timezone", "expr", "expr_valid", "outcome",
                                  "holidays", "locale")}
        e["country_valid"] = "none" if case["country"] == "none" else ("valid" if case["country"] in ("FR", "US") else "invalid")
        e["coords_valid"] = "none" if case["coords"] == "none" else ("invalid" if case["coords"].startswith("invalid") else "valid")
        e["py_constructed"] = p_["constructed"]
        e["py_validate"] = p_["validate"]
        e["rs_parse_ok"] = r_["parse_ok"]
        if case["outcome"] != "ok":
            flags = p_.get("is_oh_error", {})
            e["error_class_ok"] = bool(flags.get(case["outcome"])) and sum(1 for v in flags.values() if v) == 1
        else:
            if "panic" in r_:
                e["rs_panic"] = r_["panic"]
            e["ctx_zone"] = r_.get("ctx_zone", "naive")
            e["meta_ok"] = ("meta_exc" not in p_ and p_.get("str") == r_.get("str") and p_.get("normalize_str") == r_.get("normalize_str")
                            and p_.get("repr") == "OpeningHours(%s)" % json.dumps(p_.get("str"), ensure_ascii=False)
                            and p_.get("now_ok") is True)
            calls = []
            for pc, rc in zip(p_.get("calls", []), r_.get("calls", [])):
                calls.append({"dt": pc["dt"], "py": denull({k: v for k, v in pc.items() if k != "dt"}),
                              "rs": denull({k: v for k, v in rc.items() if k != "dt"})})
            e["calls"] = calls
            ncalls += len(calls)
        events.append(e)
    if corrupt:
        # self-test: pretend Python returned another state for one call
        for e in events:
            if e.get("calls"):
                e["calls"][0]["py"]["state"] = "unknown" if e["calls"][0]["py"]["state"] != "unknown" else "open"
                break
    lines = [json.dumps(e) for e in events]
    res, mism, acc = vlib.validate_traces("Trace_PyBinding", vlib.shard_lines(lines, 12, "c12_shard"))
    if acc != len(lines):
        raise vlib.ToolError("Trace_PyBinding consumed %d of %d events" % (acc, len(lines)))
    by_id = {e["id"]: e for e in events}
    verdicts, outcomes = collections.Counter(), collections.Counter()
    for r in res:
        c.add_tlc(r)
        for s in r.printed("STAT"):
            verdicts[s["v"]] += 1
            outcomes[s["outcome"]] += 1
    for m in mism:
        e = by_id[m["id"]]
        if m["what"] == "harness":
            raise vlib.ToolError("the case table does not match PyBinding.tla")
        bad = [cl for cl in e.get("calls", []) if cl["py"] != cl["rs"]][:2]
        c.mismatch("python binding: %s for OpeningHours(%r, timezone=%s, country=%s, coords=%s, auto_country=%s, auto_timezone=%s)" % (
            m["what"], e["expr"], e["tz"], e["country"], e["coords"], e["auto_country"], e["auto_timezone"]),
            {k: e.get(k) for k in ("expr", "tz", "country", "coords", "auto_country", "auto_timezone", "outcome", "py_constructed",
                                   "py_validate", "holidays", "locale", "ctx_zone", "meta_ok")} | {"what": m["what"], "differing_calls": bad})
    c.add("traces_validated_against_impl", len(lines))
    c.add("evaluations", ncalls + len(lines))
    c.add("distinct_nontrivial", len(lines))
    c.setv("argument_combinations", len(lines))
    c.setv("method_call_groups_compared", ncalls)
    c.setv("outcomes", dict(outcomes))
    c.setv("verdicts", dict(verdicts))
    c.setv("exhaustive", True)
    for e in events[:1] + events[len(events) // 2:len(events) // 2 + 1]:
        c.sample({k: e.get(k) for k in ("expr", "tz", "country", "coords", "auto_country", "auto_timezone", "outcome", "holidays", "locale",
                                        "py_constructed")} | {"first_call": (e.get("calls") or [None])[0]})
    c.setv("rule", "one event per constructor argument combination (complete table for one expression, reduced flags for the 6 others); "
                   "each constructed object is queried with state / is_* / next_change / intervals (open-ended and bounded) on naive and "
                   "aware datetimes (UTC, Asia/Tokyo, the context zone), str / repr / normalize / calls without time")
    c.assumptions += ["CPython 3.11 of the image with zoneinfo; aware datetimes use ZoneInfo only (a fixed-offset tzinfo raises TypeError today: left open)",
                      "gap / fold wall-clock inputs are C09's business: the fold instant is given in UTC only",
                      "the equivalent Rust context per case is the one PyBinding.tla names (holidays source, locale kind)"]
    return c.finish()


def selftest(tier):
    rc = run("quick", corrupt=1)
    print("selftest: corrupted trace %s" % ("REJECTED (good)" if rc == 1 else "ACCEPTED (BAD)"))
    return 0 if rc == 1 else 2


def replay(rec):
    print(json.dumps(rec, indent=1)[:3000])
    return run("quick")
