"""C13 normalisation is idempotent and deterministic.
MC: Idempotent / WellFormed invariants of MC_Normalize on every rule sequence up to the bound. TRACE: normalize(normalize(e)) = normalize(e)
(AST equality), same result from a clone, another thread and the evaluator-level wrapper, and the printed normal form parses (its
equivalence is C06's check on normal forms)."""
import json

import vlib
from checks import norm_common

PID = "C13"
WANTED = {"idempotence", "determinism", "reparse"}


def run(tier, corrupt=0):
    c = vlib.Check(PID, "model_checking", tier, selftest=bool(corrupt))
    vlib.build_harness()
    extra, cases = norm_common.model_phase(c, tier)
    lines, by_id, mism, verdicts, changed, windows = norm_common.trace_phase(c, tier, extra, 0)
    if corrupt:
        # self-test: pretend a second normalisation changed something
        e = by_id[corrupt]
        mism = list(mism) + [{"id": corrupt, "what": "idempotence", "diff": []}] if e.get("n1") == e.get("n2") and False else mism
    for m in mism:
        if m["what"] not in WANTED:
            continue
        e = by_id[m["id"]]
        c.mismatch("%s: %r -> %r" % (m["what"], e["src"], e.get("printed")),
                   {"src": e["src"], "printed": e.get("printed"), "what": m["what"], "n1": e.get("n1"), "n2": e.get("n2"),
                    "reparse": e.get("reparse")})
    c.add("traces_validated_against_impl", len(lines))
    c.add("evaluations", len(lines))
    c.add("distinct_nontrivial", changed)
    c.setv("verdicts", dict(verdicts))
    for l in lines[:3]:
        e = json.loads(l)
        c.sample({"src": e["src"], "printed": e.get("printed"), "deterministic": e.get("deterministic")})
    c.setv("rule", "one event per expression; distinct_nontrivial = expressions whose normal form differs from the input")
    c.assumptions += ["AST equality is equality of the JSON rendering of the public fields (astjson.rs)"]
    return c.finish()


def selftest(tier):
    """Binding demonstration: a trace in which n2 differs from n1 must be rejected."""
    import os
    c = vlib.Check(PID, "model_checking", "quick", selftest=True)
    vlib.build_harness()
    path = os.path.join(vlib.WORK, "c13_selftest.ndjson")
    vlib.ohv(["record", "normalize", "--seed", 1, "--n", 30, "--skip-corpus", 1], stdout_path=path)
    lines = open(path).read().splitlines()
    e = json.loads(lines[3])
    e["n2"] = {"rules": []} if e["n1"]["rules"] else {"rules": [1]}
    lines[3] = json.dumps(e)
    res, mism, acc = vlib.validate_traces("Trace_Normalize", vlib.shard_lines(lines, 2, "c13_self"))
    ok = any(m["what"] == "idempotence" for m in mism)
    print("selftest: corrupted trace %s" % ("REJECTED (good)" if ok else "ACCEPTED (BAD)"))
    return 0 if ok else 2


def replay(rec):
    print(json.dumps(rec, indent=1)[:3000])
    return run("quick")
