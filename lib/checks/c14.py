"""C14 Schedule algebra: MC (inductive over all valid schedules of a small grid; deliberately wrong merge must give a
counterexample), GEN (every transition of the reachable model replayed on the real Schedule), TRACE (random histories at
minute resolution judged by the laws)."""
import json
import os

import vlib
from checks import common

PID = "C14"


def run(tier, corrupt=0):
    c = vlib.Check(PID, "model_checking", tier, selftest=bool(corrupt))
    vlib.build_harness()
    # MC: the invariants are inductive over every valid schedule of the grid x every valid operand
    common.mc_phase(c, "MC_Schedule", cfg="MC_Schedule_ind2", workers=8)
    if tier == "thorough":
        common.mc_phase(c, "MC_Schedule", cfg="MC_Schedule_ind3", workers=vlib.NCPU, timeout=3600, heap="8g")
    # non-vacuity: the merge of the pinned tree (right end instead of max) must violate FromRangesLaw in the model
    nv = vlib.tlc_expect_violation("MC_Schedule", cfg="MC_Schedule_coded", workers=2)
    c.setv("nonvacuity", "MC_Schedule_coded: TLC finds a counterexample to FromRangesLaw for the right-end merge (%s)"
           % ",".join(nv.invariant_violated))
    # GEN: every transition of the reachable machine
    g = vlib.tlc_ok("MC_Schedule", cfg="Gen_Schedule_2" if tier == "quick" else "Gen_Schedule_3", workers=1, heap="8g", timeout=3600)
    cases = g.printed("REPLAY")
    if len(cases) != g.generated - 1 and len(cases) != g.generated:
        raise vlib.ToolError("generator printed %d lines for %d transitions" % (len(cases), g.generated))
    c.add_tlc(g)
    path = os.path.join(vlib.WORK, "c14_cases.ndjson")
    with open(path, "w") as f:
        for x in cases:
            f.write(json.dumps(x) + "\n")
    out = vlib.ohv(["replay", "schedule", path])
    diffs, summary = [], None
    for line in out.splitlines():
        if line.startswith("MISMATCH "):
            c.mismatch("panic or unbuildable operand while replaying a model transition: " + line[9:200], json.loads(line[9:]))
        elif line.startswith("DIFF "):
            diffs.append(json.loads(line[5:]))
        elif line.startswith("SUMMARY "):
            summary = json.loads(line[8:])
    if summary is None:
        raise vlib.ToolError("no summary from harness")
    c.add("evaluations", summary["evaluations"])
    c.add("distinct_nontrivial", summary["nontrivial"])
    c.add("traces_validated_against_impl", summary["behaviours"])
    c.setv("gen_exact_matches", summary["extra"]["exact"])
    c.setv("gen_representation_diffs", summary["extra"]["diffs"])
    if diffs:
        # results that differ from the transcription are judged by the laws, not by equality
        shards = vlib.shard_lines([json.dumps({"chain": d["chain"]}) for d in diffs], 8, "c14_diff")
        res, mism, acc = vlib.validate_traces("Trace_Schedule", shards)
        bad_lines = {(os.path.basename(s), m["line"]) for s in shards for m in []}
        for m in mism:
            c.mismatch("replayed model transition: the real result breaks a law of C14", m)
    c.sample(cases[0])
    c.sample(cases[len(cases) // 2])
    # TRACE
    lines = common.trace_phase(c, "schedule", "Trace_Schedule", 2500 if tier == "quick" else 60000,
                               8 if tier == "quick" else 16, corrupt=corrupt,
                               what="recorded Schedule history breaks a law of C14 (validity / union / overlay / tiling)")
    c.setv("exhaustive", True)
    c.setv("rule", "MC: all valid schedules over a 2-slot (quick) / 3-slot (thorough) grid x all valid operands x "
                   "{addition left/right} + all from_ranges lists (<=3 ranges incl. empty/inverted): invariants inductive. "
                   "GEN: every transition of the machine restricted to values the real type can hold, replayed through the public API "
                   "(operands rebuilt from single-range schedules), result compared with TLC's representation and tiling; "
                   "non-identical results judged by the laws. TRACE: seeded random histories at minute resolution "
                   "(overlapping/nested/adjacent/empty/inverted ranges, 3 kinds, comments), every event judged by "
                   "FromRangesLaw/AdditionLaw/IsTilingOf. distinct_nontrivial = distinct model transitions replayed.")
    c.assumptions += ["TLC evaluates Schedule.tla correctly",
                      "the internal vector is read through the cfg(ohrs_verif) accessor Schedule::verif_ranges",
                      "ranges are within 00:00-24:00 (as the property states)"]
    return c.finish(matchers=MATCHERS)


def _is_r10(m):
    """R10: from_ranges loses coverage when a later-sorted range ends before the current one (nested ranges)."""
    case = m["case"]
    chain = case.get("chain", [])
    for e in chain:
        if e.get("op") == "from_ranges":
            rs = sorted([r for r in e["ranges"] if r[0] < r[1]])
            for i in range(len(rs)):
                for j in range(len(rs)):
                    if i != j and rs[i][0] <= rs[j][0] and rs[j][1] < rs[i][1]:
                        return True
    return False


MATCHERS = {"KF-R10": _is_r10}


def selftest(tier):
    rc = run("quick", corrupt=13)
    print("selftest: corrupted trace %s" % ("REJECTED (good)" if rc == 1 else "ACCEPTED (BAD)"))
    return 0 if rc == 1 else 2


def replay(rec):
    print(json.dumps(rec, indent=1)[:3000])
    return run("quick")
