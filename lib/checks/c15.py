"""C15 CompactCalendar: MC (all insertion sequences over a small universe, closure; stream of several calendars),
GEN (every reachable state with all outgoing transitions and query answers replayed on the real type),
TRACE (random histories with years -262000..262000 validated against the abstract set semantics)."""
import json
import os

import vlib
from checks import common

PID = "C15"


def run(tier, corrupt=0):
    c = vlib.Check(PID, "model_checking", tier, selftest=bool(corrupt))
    vlib.build_harness()
    suffix = "" if tier == "quick" else "_thorough"
    common.mc_phase(c, "MC_CompactCalendar", cfg="MC_CompactCalendar" + suffix, workers=8)
    common.mc_phase(c, "MC_CalStream")
    g = vlib.tlc_ok("MC_CompactCalendar", cfg="Gen_CompactCalendar" + suffix, workers=1, heap="6g")
    cases = g.printed("REPLAY")
    if len(cases) != g.distinct:
        raise vlib.ToolError("generator printed %d lines for %d states" % (len(cases), g.distinct))
    path = os.path.join(vlib.WORK, "c15_cases.ndjson")
    with open(path, "w") as f:
        for x in cases:
            f.write(json.dumps(x) + "\n")
    common.harness_replay(c, "calendar", path, ["--seed", c.seed])
    c.sample(cases[len(cases) // 2])
    common.trace_phase(c, "calendar", "Trace_CompactCalendar", 1500 if tier == "quick" else 40000,
                       6 if tier == "quick" else 14, corrupt=corrupt)
    c.setv("exhaustive", True)
    c.setv("rule", "GEN: every reachable state of MC_CompactCalendar (= every subset of the date universe: years -1, 0 (leap), 2 "
                   "[, 1, 5], month ends and Feb 29) is rebuilt on the real type in 4 insertion orders (incl. duplicates and collect()), "
                   "then every insert, contains, first_after (query dates inside and outside the window), count, iter and the "
                   "serialize/deserialize round trip (alone and 3 calendars in one stream) are compared with TLC's values. "
                   "distinct_nontrivial = number of distinct model states replayed. TRACE: seeded random histories.")
    c.assumptions += ["TLC evaluates CompactCalendar.tla correctly",
                      "only valid dates are inserted (NaiveDate cannot represent others)",
                      "byte layout is observed only through lengths (written = consumed = 12 + 48 * window), not contents"]
    return c.finish()


def selftest(tier):
    rc = run("quick", corrupt=11)
    print("selftest: corrupted trace %s" % ("REJECTED (good)" if rc == 1 else "ACCEPTED (BAD)"))
    return 0 if rc == 1 else 2


def replay(rec):
    print(json.dumps(rec, indent=1))
    return run("quick")
