"""C16 the interval-size bound is a sound approximation.
MC: BoundOk of MC_Iterator_bound (both bound exits as coded, every schedule/window/hint). TRACE: next_change / state with a bound B
(1 day .. 30 years) against the library's exact answers at the same instant, plus the C03 re-derivation of the exact answer."""
import json

import vlib
from checks import common, iter_common

PID = "C16"
WANTED = {"bound_state", "bound_wrong", "bound_not_exact", "bound_not_none", "bound_range"}


def run(tier, corrupt=0):
    c = vlib.Check(PID, "model_checking", tier, selftest=bool(corrupt))
    vlib.build_harness()
    common.mc_phase(c, "MC_Iterator", cfg="MC_Iterator_bound_quick" if tier == "quick" else "MC_Iterator_bound",
                    workers=vlib.NCPU, timeout=3600, heap="12g")
    nv = vlib.tlc_expect_violation("MC_Iterator", cfg="MC_Iterator_bound_nv", workers=4)
    c.setv("nonvacuity", "MC_Iterator_bound_nv (the iterator goes on after an interval considered infinite, as the pinned tree did): "
                         "TLC refutes BoundPartition (%s)" % ",".join(nv.invariant_violated))
    n, procs, shards = (1000, 16, 12) if tier == "quick" else (30000, 16, 16)
    lines = iter_common.record_parallel(c, "bounded", n, procs, corrupt=corrupt,
                                       extra=["--work-budget", 6_000_000 if tier == "quick" else 400_000_000])
    # both edges of the contract, systematically: bounds straddling the exact distance D and D + 24 h
    sweep = iter_common.record_sweep(c, "sweep-bounded", 24 if tier == "quick" else 2, procs=8)
    c.setv("contract_edge_sweep_events", len(sweep))
    lines = iter_common.renumber(lines + sweep)
    verdicts, nint, nruns, nontrivial = iter_common.validate(c, lines, shards, "interval-size bound")
    c.mismatches = [m for m in c.mismatches if m["case"]["verdict"] in WANTED]
    approx = 0
    for l in lines:
        e = json.loads(l)
        if e.get("next_change") and e.get("next_change_b") == []:
            approx += 1
    c.add("traces_validated_against_impl", len(lines))
    c.add("evaluations", len(lines))
    c.add("distinct_nontrivial", approx)
    c.setv("verdicts", dict(verdicts))
    for l in lines[:3]:
        e = json.loads(l)
        c.sample({k: e.get(k) for k in ("src", "t", "bound", "next_change", "next_change_b", "state", "state_b") if k in e})
    c.setv("rule", "one event = (expression, context, instant, bound B): distinct_nontrivial = events in which the bound actually "
                   "approximated (exact answer exists, bounded answer none).")
    c.assumptions += ["the exact answer is the library's own unbounded next_change (differential, as the property states)"]
    return c.finish()


def selftest(tier):
    rc = run("quick", corrupt=7)
    print("selftest: corrupted trace %s" % ("REJECTED (good)" if rc == 1 else "ACCEPTED (BAD)"))
    return 0 if rc == 1 else 2


def replay(rec):
    print(json.dumps({k: v for k, v in rec["case"].items() if k not in ("expr", "sched")}, indent=1)[:3000])
    return run("quick")
