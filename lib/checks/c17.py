"""C17 comments are well-formed and come from the rule in effect.
MC: comment clauses of MC_Schedule (never invented; iterator only spreads schedule comments).
TRACE: expressions in which every rule carries its own comment; Trace_DayEval's CommentsOk (subset of the rules' comments,
empty outside the range / when no rule contributes, exact for an isolated single-rule period); sortedness and uniqueness are
checked on the recorded vectors; first-interval comments are checked by the iterator trace (C02 shares it)."""
import json
import os

import vlib
from checks import common, dayeval_common, iter_common

PID = "C17"


def run(tier, corrupt=0):
    c = vlib.Check(PID, "model_checking", tier, selftest=bool(corrupt))
    vlib.build_harness()
    common.mc_phase(c, "MC_Schedule", cfg="MC_Schedule_ind2", workers=8)
    n, days, shards = (500, 12, 12) if tier == "quick" else (15000, 20, 16)
    lines = dayeval_common.record(c, "comments", "comments", n, days, corrupt=0)
    lines += dayeval_common.record(c, "corpus", "corpus", 0, days)
    fixed = []
    unsorted = 0
    for i, l in enumerate(lines):
        e = json.loads(l)
        e["id"] = i + 1
        if corrupt and i + 1 == corrupt:
            # self-test: invent a comment on the first period of the first day
            for til in e["tilings"]:
                til[0][3] = til[0][3] + ["zz-not-from-any-rule"]
        for til in e["tilings"]:
            for t in til:
                if any(a >= b for a, b in zip(t[3], t[3][1:])):
                    unsorted += 1
                    c.mismatch("comments of a period are not sorted and unique: %r" % (t[3],), {"src": e["src"], "tile": t})
        fixed.append(json.dumps(e))
    tot = dayeval_common.validate(c, fixed, shards, "comment")
    c.add("traces_validated_against_impl", len(fixed))
    c.add("evaluations", tot["ok"] + tot["undet"] + tot["kind"] + tot["comment"])
    c.add("distinct_nontrivial", tot["commented"])
    c.setv("days_skipped_undetermined", tot["undet"])
    # first-interval clause: the first interval of a stream carries the comments of the period containing the start
    kept = list(c.mismatches)
    rl = iter_common.record_parallel(c, "range", 400 if tier == "quick" else 8000, 8, extra=["--comments", 1, "--work-budget", 3_000_000 if tier == "quick" else 100_000_000])
    verdicts, nint, nruns, nontrivial = iter_common.validate(c, rl, 8, "first interval comments")
    c.mismatches = kept + [m for m in c.mismatches[len(kept):] if m["case"].get("verdict") == "comment"]
    c.add("traces_validated_against_impl", len(rl))
    c.setv("first_interval_events", len(rl))
    for l in fixed[:3]:
        e = json.loads(l)
        c.sample({"src": e["src"], "days": e["days"][:4], "tilings": e["tilings"][:2]})
    c.setv("rule", "evaluations = (expression, day) pairs whose tiling comments were checked; distinct_nontrivial = those on which "
                   "at least one period carries a comment. Generated expressions give every rule its own comment r<i>.")
    c.assumptions += ["same trusted base as C01", "string order of comments is checked by the runner on the recorded vectors (TLC has no string order)"]
    return c.finish()


def selftest(tier):
    rc = run("quick", corrupt=3)
    print("selftest: corrupted trace %s" % ("REJECTED (good)" if rc == 1 else "ACCEPTED (BAD)"))
    return 0 if rc == 1 else 2


def replay(rec):
    print(json.dumps(rec, indent=1)[:3000])
    return run("quick")
