"""C18 evaluation is pure: same answer across calls, clones and threads.
MC: Purity.tla (threads x lazily initialised statics: uninit -> initialising(t) -> ready) - every interleaving of 3 threads x 2 calls over
3 statics: one initialiser, no partially built table is read, every thread terminates (liveness under weak fairness).
GEN+TRACE: TLC enumerates schedule skeletons (which thread makes which first use, in which program order); each is run in a FRESH process
of the harness (all tables still uninitialised), threads released together by a barrier with seeded jitter; every response must equal the
response of a sequential single-threaded fresh process (Trace_Purity)."""
import collections
import concurrent.futures as cf
import json
import os
import subprocess

import vlib
from checks import common

PID = "C18"
MENU = ["holidays_fr", "holidays_us", "country_from_coords", "tz_from_coords", "ctx_from_coords", "easter", "plain_shared", "plain_clone",
        "normalize", "clone_ctx_switch", "clone_locale_switch", "interleave_exprs", "shared_walk", "coords_two_zones", "calendar_rebuild"]


def run_skeleton(skel, jitter):
    p = subprocess.run([vlib.BIN, "threads", "--skeleton", json.dumps(skel), "--jitter", str(jitter)], stdout=subprocess.PIPE,
                       stderr=subprocess.PIPE, text=True, timeout=900, env=vlib.clean_env(), cwd=vlib.WORK)
    if p.returncode != 0:
        # a crash of the process under test is data: no event explains it
        return [{"thread": 0, "seq": 0, "call": skel[0][0], "consistent": False,
                 "digest": "PROCESS-CRASH rc=%d %s" % (p.returncode, p.stderr[-200:])}]
    events = [json.loads(l) for l in p.stdout.splitlines() if l.strip()]
    for e in events:
        e["consistent"] = not e["digest"].startswith("INCONSISTENT")
    return events


def run(tier, corrupt=0):
    c = vlib.Check(PID, "exploration", tier, selftest=bool(corrupt))
    vlib.build_harness()
    common.mc_phase(c, "MC_Purity", workers=8)
    skel_path = os.path.join(vlib.WORK, "c18_skeletons.ndjson")
    vlib.tlc_ok("Gen_Purity", env={"OUT": skel_path})
    skeletons = [json.loads(l) for l in open(skel_path)]
    skeletons.sort(key=json.dumps)
    n = 80 if tier == "quick" else 2500
    c.rng.shuffle(skeletons)
    crowd = [s for s in skeletons if len(s) >= 8]
    chosen = crowd + [s for s in skeletons if len(s) < 8][:n]
    # reference: one sequential single-threaded fresh process (twice: repeated calls agree)
    reference = run_skeleton([MENU + MENU], 0)
    ref = {}
    for e in reference:
        if not e["consistent"]:
            c.mismatch("a clone under another context / an interleaved expression changed an answer (sequential run): %s" % e["call"], e)
        if e["call"] in ref and ref[e["call"]] != e["digest"]:
            c.mismatch("a repeated sequential call gave another answer: %s" % e["call"], e)
        ref[e["call"]] = e["digest"]
    if any(v.startswith("PANIC") or v.startswith("PROCESS-CRASH") for v in ref.values()):
        raise vlib.ToolError("the sequential reference run failed: %s" % {k: v[:80] for k, v in ref.items()})
    # every call alone in a fresh process of its own: the sequential run (all calls one after the other) must agree with it
    with cf.ThreadPoolExecutor(max_workers=6) as ex:
        alone = list(ex.map(lambda call: run_skeleton([[call]], 0), MENU))
    for call, events in zip(MENU, alone):
        if events[0]["digest"] != ref.get(call):
            c.mismatch("a call answers differently after other calls than alone in a fresh process: %s" % call,
                       {"call": call, "alone": events[0]["digest"][:300], "after_others": (ref.get(call) or "")[:300]})
    ref_seq = [{"call": k, "digest": v} for k, v in sorted(ref.items())]
    with cf.ThreadPoolExecutor(max_workers=6) as ex:
        results = list(ex.map(lambda ks: run_skeleton(ks[1], c.seed * 7919 + ks[0]), enumerate(chosen)))
    lines = []
    for i, (skel, events) in enumerate(zip(chosen, results)):
        if corrupt and i + 1 == corrupt:
            events[-1]["digest"] = events[-1]["digest"] + " (tampered)"
        lines.append(json.dumps({"id": i + 1, "skeleton": skel, "events": events, "reference": ref_seq}))
    res, mism, acc = vlib.validate_traces("Trace_Purity", vlib.shard_lines(lines, 8, "c18_shard"))
    if acc != len(lines):
        raise vlib.ToolError("Trace_Purity consumed %d of %d histories" % (acc, len(lines)))
    nevents = 0
    for r in res:
        c.add_tlc(r)
        for s in r.printed("STAT"):
            nevents += s["events"]
    for m in mism:
        c.mismatch("a concurrent response differs from the sequential one: %s" % json.dumps(m["bad"])[:300], m)
    c.add("evaluations", nevents)
    # values with a history (Session.tla): whatever sequence of parse / clone / with_context / normalize / drop built a value,
    # whatever was done to other values and to running iterators in between, it answers like the same value built afresh
    common.session_phase(c, 1200 if tier == "quick" else 40000)
    c.add("distinct_nontrivial", len({json.dumps(s) for s in chosen}))
    c.add("traces_validated_against_impl", len(lines))
    c.setv("skeletons_available", len(skeletons))
    c.setv("fresh_processes", len(lines) + 1)
    c.sample({"skeleton": chosen[0], "events": results[0][:3]})
    c.sample({"reference": {k: v[:80] for k, v in list(ref.items())[:4]}})
    c.setv("rule", "one history = one fresh process running one skeleton (2 threads x 2 calls, 3 threads x 1 first use, one wide 8-thread "
                   "program) over a menu of 9 calls (embedded holiday DBs, country boundaries, time-zone finder / name map, Easter warning "
                   "latch, evaluation of a shared value, of clones interleaved with other expressions, normalisation); "
                   "distinct_nontrivial = distinct skeletons run")
    c.assumptions += ["real interleavings inside std's LazyLock / Once are not controlled: the race is provoked (barrier + jitter), not enumerated; "
                      "the model assumes std's guarantees", "results are compared through their Debug rendering"]
    return c.finish()


def selftest(tier):
    rc = run("quick", corrupt=5)
    print("selftest: corrupted trace %s" % ("REJECTED (good)" if rc == 1 else "ACCEPTED (BAD)"))
    return 0 if rc == 1 else 2


def replay(rec):
    print(json.dumps(rec, indent=1)[:3000])
    return run("quick")
