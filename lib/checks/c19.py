"""C19 ExtendedTime: MC (counter machine + laws), GEN (exhaustive expected tables from TLC replayed on the
real type), TRACE (random call histories validated by Trace_ExtTime)."""
import json
import os

import vlib
from checks import common

PID = "C19"


def run(tier, corrupt=0):
    c = vlib.Check(PID, "model_checking", tier, selftest=bool(corrupt))
    vlib.build_harness()
    common.mc_phase(c, "MC_ExtTime")
    tables = os.path.join(vlib.WORK, "c19_tables.json")
    vlib.tlc_ok("Gen_ExtTime", env={"OUT": tables}, heap="6g")
    common.harness_replay(c, "exttime", tables)
    common.trace_phase(c, "exttime", "Trace_ExtTime", 4000 if tier == "quick" else 60000,
                       4 if tier == "quick" else 12, corrupt=corrupt)
    c.sample({"gen_tables": "new[256x256], from_mins[65536], add_hours[2881x256], add_minutes[2881 x 65536 via validity interval + 14 full rows], show/to_clock/hour/minute[2881], cmp[2881^2]"})
    c.setv("exhaustive", True)
    c.setv("rule", "GEN: every input of the finite domains of C19 (all u8xu8, all u16, all values x all i8 / i16) "
                   "compared with the table TLC computed from ExtTime.tla; TRACE: seeded random histories of "
                   "new/from_mins/add_minutes/add_hours/show/cmp, each step explained by the spec operator. "
                   "Every case is distinct by construction (enumeration without repetition).")
    c.assumptions += ["TLC evaluates ExtTime.tla correctly", "serde_json / the harness's abs() projection (mins_from_midnight) is faithful"]
    return c.finish()


def selftest(tier):
    """Binding demonstration: one falsified recorded result must be rejected."""
    rc = run("quick", corrupt=17)
    print("selftest: corrupted trace %s" % ("REJECTED (good)" if rc == 1 else "ACCEPTED (BAD)"))
    return 0 if rc == 1 else 2


def replay(rec):
    print(json.dumps(rec, indent=1))
    return run("quick")
