"""C19 ExtendedTime: MC (counter machine + laws), GEN (exhaustive expected tables from TLC replayed on the
real type), TRACE (random call histories validated by Trace_ExtTime)."""
import json
import os

import vlib

PID = "C19"


def _run_harness_replay(c, topic, path):
    out = vlib.ohv(["replay", topic, path])
    summary = None
    for line in out.splitlines():
        if line.startswith("MISMATCH "):
            c.mismatch("implementation differs from the table computed by TLC: " + line[9:200], json.loads(line[9:]))
        elif line.startswith("SUMMARY "):
            summary = json.loads(line[8:])
    if summary is None:
        raise vlib.ToolError("harness produced no summary")
    return summary


def run(tier, corrupt=0):
    c = vlib.Check(PID, "model_checking", tier, selftest=bool(corrupt))
    vlib.build_harness()
    # MC: counter machine + algebraic laws
    r = vlib.tlc_ok("MC_ExtTime", workers=4, coverage=True)
    c.add_tlc(r)
    zero = r.coverage_zero_actions()
    if zero:
        raise vlib.ToolError("vacuous model: actions never taken: %s" % zero)
    # GEN: expected tables
    tables = os.path.join(vlib.WORK, "c19_tables.json")
    g = vlib.tlc_ok("Gen_ExtTime", env={"OUT": tables}, heap="6g")
    s = _run_harness_replay(c, "exttime", tables)
    c.add("evaluations", s["evaluations"])
    c.add("distinct_nontrivial", s["nontrivial"])
    # TRACE: random histories
    n = 4000 if tier == "quick" else 60000
    tr = os.path.join(vlib.WORK, "c19_trace.ndjson")
    args = ["record", "exttime", "--seed", c.seed, "--n", n]
    if corrupt:
        args += ["--corrupt", corrupt]
    vlib.ohv(args, stdout_path=tr)
    lines = open(tr).read().splitlines()
    shards = vlib.shard_lines(lines, 4 if tier == "quick" else 12, "c19_shard")
    res, mism, acc = vlib.validate_traces("Trace_ExtTime", shards)
    for m in mism:
        c.mismatch("recorded history not explained by ExtTime.tla", m)
    for x in res:
        c.add_tlc(x)
    c.add("traces_validated_against_impl", acc)
    c.add("evaluations", len(lines))
    for l in lines[:2] + lines[-1:]:
        c.sample(json.loads(l))
    c.sample({"gen_tables": "new[256x256], from_mins[65536], add_hours[2881x256], add_minutes[2881 x 65536 via validity interval + 14 full rows], show/to_clock/hour/minute[2881], cmp[2881^2]"})
    c.setv("exhaustive", True)
    c.setv("rule", "GEN: every input of the finite domains of C19 (all u8xu8, all u16, all values x all i8 / i16) "
                   "compared with the table TLC computed from ExtTime.tla; TRACE: seeded random histories of "
                   "new/from_mins/add_minutes/add_hours/show/cmp, each step explained by the spec operator. "
                   "Every case is distinct by construction (enumeration without repetition).")
    c.assumptions += ["TLC evaluates ExtTime.tla correctly", "serde_json / the harness's abs() projection (mins_from_midnight) is faithful"]
    return c.finish()


def selftest(tier):
    """Binding demonstration: one falsified recorded result must be rejected."""
    rc = run("quick", corrupt=17)
    print("selftest: corrupted trace %s" % ("REJECTED (good)" if rc == 1 else "ACCEPTED (BAD)"))
    return 0 if rc == 1 else 2


def replay(rec):
    print(json.dumps(rec, indent=1))
    return run("quick")
