"""C20 UniqueSortedVec: MC (union machine, one action per branch of the Rust code, laws over all subset pairs),
GEN (exhaustive tables replayed), TRACE (random longer histories)."""
import json
import os

import vlib
from checks import common

PID = "C20"


def run(tier, corrupt=0):
    c = vlib.Check(PID, "model_checking", tier, selftest=bool(corrupt))
    vlib.build_harness()
    common.mc_phase(c, "MC_SortedVec")
    tables = os.path.join(vlib.WORK, "c20_tables.json")
    long_cases = os.path.join(vlib.WORK, "c20_long.json")
    vlib.tlc_ok("Gen_SortedVec", env={"OUT": tables, "OUT2": long_cases}, heap="6g")
    s = common.harness_replay(c, "sortedvec", tables, ["--long", long_cases])
    c.setv("long_structured_pairs", "5832 triples of runs (owner left / right / both x lengths 1, 16, 17, 32, 64, 65) + 35 interleavings of depth "
                                    "8..100 over 5 lower parts, emitted by TLC with their set union; both operand orders and a reversed input")
    br = s["extra"]["branches"]
    if any(br.get(b, 0) == 0 for b in ("right_empty", "left_empty", "append", "prepend", "pop")):
        raise vlib.ToolError("a branch of union is not covered by the generated cases: %s" % br)
    c.setv("union_branches_in_generated_cases", br)
    common.trace_phase(c, "sortedvec", "Trace_SortedVec", 3000 if tier == "quick" else 60000,
                       4 if tier == "quick" else 12, corrupt=corrupt)
    c.sample({"gen": "from_vec: 5461 vectors over 0..3 (len<=6); union: 64x64 subset pairs of 0..5 + all 5461^2 vector pairs; "
                     "contains/find_first_following: 64 subsets x elements -1..6"})
    c.setv("exhaustive", True)
    c.setv("rule", "GEN enumerates without repetition every vector over {0..3} up to length 6, every pair of them, every pair of "
                   "subsets of {0..5}; expected values are computed by TLC from SortedVec.tla (Union transcribed branch by branch and "
                   "checked equal to set union in MC_SortedVec). TRACE: seeded random histories with vectors up to length 24 over "
                   "alphabets up to 1000 values.")
    c.assumptions += ["TLC evaluates SortedVec.tla correctly", "elements are i64 (the library uses the type with Arc<str> and integers; Ord is the only interface used)"]
    return c.finish()


def selftest(tier):
    rc = run("quick", corrupt=23)
    print("selftest: corrupted trace %s" % ("REJECTED (good)" if rc == 1 else "ACCEPTED (BAD)"))
    return 0 if rc == 1 else 2


def replay(rec):
    print(json.dumps(rec, indent=1))
    return run("quick")
