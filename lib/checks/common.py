"""Phases shared by the data-structure checks (C14, C15, C19, C20)."""
import json
import os

import vlib


def mc_phase(c, module, cfg=None, workers=4, require_actions=True, timeout=1800, heap="4g"):
    """Model-check a bounded configuration; every action of the model must be taken (vacuity guard)."""
    r = vlib.tlc_ok(module, cfg=cfg, workers=workers, coverage=require_actions, timeout=timeout, heap=heap)
    c.add_tlc(r)
    vlib.log('[mc] %s/%s: %d distinct states, %.1fs' % (module, cfg or module, r.distinct, r.wall))
    if require_actions:
        zero = r.coverage_zero_actions()
        if zero:
            raise vlib.ToolError("vacuous model %s: actions never taken: %s" % (module, zero))
    return r


def harness_replay(c, topic, path, extra_args=()):
    """Replay TLC-generated cases on the implementation; collect MISMATCH/PANIC lines and the summary."""
    out = vlib.ohv(["replay", topic, path] + list(extra_args))
    summary = None
    for line in out.splitlines():
        if line.startswith("MISMATCH "):
            c.mismatch("implementation differs from what TLC computed from the spec: " + line[9:220], json.loads(line[9:]))
        elif line.startswith("SUMMARY "):
            summary = json.loads(line[8:])
    if summary is None:
        raise vlib.ToolError("harness produced no summary for replay %s" % topic)
    c.add("evaluations", summary["evaluations"])
    c.add("distinct_nontrivial", summary["nontrivial"])
    c.add("traces_validated_against_impl", summary.get("behaviours", 0))
    return summary


def trace_phase(c, topic, module, n, nshards, corrupt=0, extra_args=(), cfg=None, what=None, count_chains=True, heap="3g"):
    """Record a seeded random trace from the implementation and validate it with the trace spec."""
    tr = os.path.join(vlib.WORK, "%s_trace.ndjson" % c.pid.lower())
    args = ["record", topic, "--seed", c.seed, "--n", n] + list(extra_args)
    if corrupt:
        args += ["--corrupt", corrupt]
    vlib.ohv(args, stdout_path=tr)
    lines = open(tr).read().splitlines()
    shards = vlib.shard_lines(lines, nshards, "%s_shard" % c.pid.lower())
    res, mism, acc = vlib.validate_traces(module, shards, cfg=cfg, heap=heap)
    if acc != len(lines):
        raise vlib.ToolError("trace spec %s consumed %d of %d recorded lines" % (module, acc, len(lines)))
    for m in mism:
        c.mismatch(what or ("recorded history not explained by %s" % module), m)
    for x in res:
        c.add_tlc(x)
    if count_chains:
        c.add("traces_validated_against_impl", acc)
    c.add("evaluations", len(lines))
    for l in lines[:2] + lines[-1:]:
        c.sample(json.loads(l))
    return lines
