"""Shared by C01 and C17: record (expression, context, days, tilings) events from the real code and validate them
with Trace_DayEval (DayEval.tla semantics, Det(...) decides where a verdict is taken)."""
import json
import os
import collections

import vlib


def record(c, name, mode, n, days, seed_off=0, corrupt=0):
    path = os.path.join(vlib.WORK, "%s_%s.ndjson" % (c.pid.lower(), name))
    args = ["record", "dayeval", "--mode", mode, "--n", n, "--days", days, "--seed", c.seed + seed_off]
    if corrupt:
        args += ["--corrupt", corrupt]
    vlib.ohv(args, stdout_path=path, timeout=7200)
    return open(path).read().splitlines()


def record_cases(c, cases_path, every, days):
    path = os.path.join(vlib.WORK, "%s_cases_trace.ndjson" % c.pid.lower())
    vlib.ohv(["record", "dayeval", "--mode", "cases", "--cases", cases_path, "--every", every, "--days", days, "--seed", c.seed],
             stdout_path=path, timeout=7200)
    return open(path).read().splitlines()


def validate(c, lines, nshards, want):
    """want: 'kind' (C01) or 'comment' (C17). Returns the aggregated statistics."""
    shards = vlib.shard_lines(lines, nshards, "%s_de" % c.pid.lower())
    res, mism, acc = vlib.validate_traces("Trace_DayEval", shards, heap="3g")
    if acc != len(lines):
        raise vlib.ToolError("Trace_DayEval consumed %d of %d events" % (acc, len(lines)))
    tot = collections.Counter()
    for r in res:
        c.add_tlc(r)
        for s in r.printed("STAT"):
            for k in ("ok", "undet", "kind", "comment", "nontrivial", "commented"):
                tot[k] += s[k]
            # diagnostics on is_constant (the verdict on it belongs to C02/C03, which stream the Gen_Constant cases)
            tot["constant_days_not_constant"] += s.get("constant", 0)
            tot["is_constant_true"] += 1 if s.get("flag") else 0
            tot["is_constant_equals_model"] += 1 if s.get("flag") == s.get("model_flag") else 0
    c.setv("is_constant_diagnostics", {"expressions": len(lines), "flag_true": tot["is_constant_true"],
                                       "flag_equals_IsConstant_of_DayEval_tla": tot["is_constant_equals_model"],
                                       "days_contradicting_a_true_flag": tot["constant_days_not_constant"]})
    by_id = {}
    for l in lines:
        e = json.loads(l)
        by_id[e["id"]] = e
    for m in mism:
        if m["what"] != want:
            continue
        e = by_id.get(m["id"], {})
        case = {"src": e.get("src"), "ctx": e.get("ctx"), "day": m["day"], "expected": m["expected"],
                "observed": m["observed"], "expr": e.get("expr")}
        c.mismatch("%s on day %d of %r: expected %s, observed %s" % (
            "day schedule differs from DayEval.tla" if want == "kind" else "comments break the provenance rules of C17",
            m["day"], e.get("src"), json.dumps(m["expected"])[:160], json.dumps(m["observed"])[:160]), case)
    # panics of schedule_at are C04's business, but they are reported in evidence
    panics = sum(len(json.loads(l).get("panics", [])) for l in lines)
    c.add("schedule_at_panics_seen", panics)
    return tot
