"""Shared by C02, C03, C08, C16 (and the first-interval clause of C17): record interval-stream / point events from the real
code in several harness processes and validate them with Trace_Iter (Iterator.tla)."""
import collections
import concurrent.futures as cf
import json
import os

import vlib
from checks import common


def record_parallel(c, mode, n_total, procs, extra=(), corrupt=0):
    import time
    t0 = time.time()
    per = max(1, n_total // procs)
    paths = []

    def one(i):
        path = os.path.join(vlib.WORK, "%s_%s_%02d.ndjson" % (c.pid.lower(), mode, i))
        args = ["record", "iter", "--mode", mode, "--n", per, "--seed", c.seed * 1000 + i] + list(extra)
        if corrupt and i == 0:
            args += ["--corrupt", corrupt]
        vlib.ohv(args, stdout_path=path, timeout=7200)
        return path

    with cf.ThreadPoolExecutor(max_workers=procs) as ex:
        paths = list(ex.map(one, range(procs)))
    lines = []
    for p in paths:
        for l in open(p):
            e = json.loads(l)
            e["id"] = len(lines) + 1
            lines.append(json.dumps(e))
    vlib.log('[record] %s: %d events in %.1fs' % (mode, len(lines), time.time() - t0))
    return lines


def record_sweep(c, mode, every, procs=16, budget=20_000_000):
    """Deterministic sweep: hint-branch family x critical dates (every `every`-th), split over `procs` harness processes."""
    import time
    t0 = time.time()

    def one(i):
        path = os.path.join(vlib.WORK, "%s_%s_%02d.ndjson" % (c.pid.lower(), mode, i))
        vlib.ohv(["record", "iter", "--mode", mode, "--seed", c.seed, "--every", every, "--part", i, "--parts", procs,
                  "--work-budget", budget], stdout_path=path, timeout=7200)
        return path

    with cf.ThreadPoolExecutor(max_workers=procs) as ex:
        paths = list(ex.map(one, range(procs)))
    lines = []
    for p in paths:
        lines += open(p).read().splitlines()
    vlib.log('[record] %s: %d events in %.1fs' % (mode, len(lines), time.time() - t0))
    return lines


def generate_constant_cases(c):
    """Gen_Constant: TLC emits every constant-shaped rule sequence of the bounded model, printed with Display.tla."""
    r = vlib.tlc_ok("Gen_Constant", workers=4, heap="4g", timeout=1800)
    cases = r.printed("REPLAY")
    if len(cases) < 1000:
        raise vlib.ToolError("Gen_Constant produced only %d cases" % len(cases))
    unsound = [x for x in cases if not x["sound"]]
    if unsound:
        raise vlib.ToolError("the model's own IsConstant is unsound on %r" % unsound[0])
    path = os.path.join(vlib.WORK, "%s_constant_cases.ndjson" % c.pid.lower())
    with open(path, "w") as f:
        for x in cases:
            f.write(json.dumps(x) + "\n")
    c.setv("constant_shaped_sequences_generated", len(cases))
    c.setv("constant_shaped_sequences_model_says_constant", sum(1 for x in cases if x["constant"]))
    return path


def record_cases(c, mode, cases_path, every, procs=8):
    """TLC-generated expressions through the real iterator (mode cases-range) or state/next_change (cases-point)."""
    import time
    t0 = time.time()

    def one(i):
        path = os.path.join(vlib.WORK, "%s_%s_%02d.ndjson" % (c.pid.lower(), mode, i))
        vlib.ohv(["record", "iter", "--mode", mode, "--cases", cases_path, "--seed", c.seed, "--every", every,
                  "--part", i, "--parts", procs], stdout_path=path, timeout=7200)
        return path

    with cf.ThreadPoolExecutor(max_workers=procs) as ex:
        paths = list(ex.map(one, range(procs)))
    lines = []
    for p in paths:
        lines += open(p).read().splitlines()
    agree = sum(1 for l in lines if json.loads(l).get("is_constant") == json.loads(l).get("model_constant"))
    c.setv("is_constant_flag_equals_model_IsConstant", "%d of %d generated events (diagnostic, not a verdict)" % (agree, len(lines)))
    vlib.log('[record] %s: %d events in %.1fs (is_constant = model on %d)' % (mode, len(lines), time.time() - t0, agree))
    return lines


def hints_phase(c, tier, cases_path=None, corrupt=0):
    """MC_Hints (the transcribed hints satisfy the contract, bounded exhaustive) + the real next_change_hint (hook) recorded on
    (expression, day) pairs and validated by Trace_Hints: contract on the library's own tilings (verdict), equality with the
    transcription (diagnostic)."""
    import time
    for cfg, inv in ((("MC_Hints", None), ("MC_Hints_expr", None)) if tier == "quick" else
                     (("MC_Hints_thorough", None), ("MC_Hints_expr_thorough", None))):
        r = vlib.tlc_ok("MC_Hints", cfg=cfg, workers=vlib.NCPU if tier == "thorough" else 8, heap="6g", timeout=3600)
        c.add_tlc(r)
        vlib.log('[mc] MC_Hints/%s: %d distinct states, %.1fs' % (cfg, r.distinct, r.wall))
    vlib.tlc_expect_violation("MC_Hints", cfg="MC_Hints_nv", workers=4)
    vlib.tlc_expect_violation("MC_Hints", cfg="MC_Hints_expr_nv", workers=4)
    vlib.tlc_expect_violation("MC_Hints", cfg="MC_Hints_r21", workers=4)      # the date-range hint of the tree before R21 is refuted
    # the spill test shortened to rules "with a span passing midnight": refuted when the test is written end < start (the 24-hour
    # span 10:00-10:00 is forgotten - seeded change C02-7); sound when written like the evaluator's wrap condition (thorough tier)
    vlib.tlc_expect_violation("MC_Hints", cfg="MC_Hints_expr_lt", workers=4)
    if tier == "thorough":
        vlib.tlc_ok("MC_Hints", cfg="MC_Hints_expr_le", workers=8, heap="6g")
    t0 = time.time()
    n, procs = (400, 8) if tier == "quick" else (12000, 16)
    sample = None
    if cases_path:
        sample = os.path.join(vlib.WORK, "%s_hint_cases.ndjson" % c.pid.lower())
        every = 12 if tier == "quick" else 2
        with open(sample, "w") as f:
            for i, l in enumerate(open(cases_path)):
                if (i + c.seed) % every == 0:
                    f.write(l)

    def one(i):
        path = os.path.join(vlib.WORK, "%s_hints_%02d.ndjson" % (c.pid.lower(), i))
        args = ["record", "hints", "--seed", c.seed, "--n", n, "--part", i, "--parts", procs]
        if sample:
            args += ["--cases", sample]
        if corrupt and i == 0:
            args += ["--corrupt", corrupt]
        vlib.ohv(args, stdout_path=path, timeout=7200)
        return path

    with cf.ThreadPoolExecutor(max_workers=procs) as ex:
        paths = list(ex.map(one, range(procs)))
    lines = renumber([l for p in paths for l in open(p).read().splitlines()])
    vlib.log('[record] hints: %d events in %.1fs' % (len(lines), time.time() - t0))
    t0 = time.time()
    res, mism, acc = vlib.validate_traces("Trace_Hints", vlib.shard_lines(lines, 12 if tier == "quick" else 16, "%s_hn" % c.pid.lower()), heap="3g")
    if acc != len(lines):
        raise vlib.ToolError("Trace_Hints consumed %d of %d events" % (acc, len(lines)))
    vlib.log('[validate] Trace_Hints: %d events in %.1fs' % (len(lines), time.time() - t0))
    by_id = {json.loads(l)["id"]: json.loads(l) for l in lines}
    verdicts, skipped = collections.Counter(), 0
    differs = []
    for r in res:
        c.add_tlc(r)
        for s in r.printed("STAT"):
            verdicts[s["v"]] += 1
            skipped += s["skipped"]
        differs += r.printed("DIFFERS")
    for m in mism:
        e = by_id.get(m["id"], {})
        c.mismatch("unsound day-jump hint: next_change_hint(%s) = %s for %r lets the iterator skip days that differ: %s" % (
            m["n"], m["hint"], e.get("src"), json.dumps(m["bad"])[:200]),
            {"src": e.get("src"), "ctx": e.get("ctx"), "n": m["n"], "hint": m["hint"], "bad": m["bad"], "verdict": "stream", "expr": e.get("expr")})
    c.setv("hints", {"events": len(lines), "verdicts": dict(verdicts), "days_the_hints_skip": skipped,
                     "transcription_differs_examples": [{"src": by_id.get(d["id"], {}).get("src"), **d} for d in differs[:5]]})
    c.add("traces_validated_against_impl", len(lines))
    return verdicts


def renumber(lines):
    out = []
    for l in lines:
        e = json.loads(l)
        e["id"] = len(out) + 1
        out.append(json.dumps(e))
    return out


def validate(c, lines, nshards, label):
    import time
    t0 = time.time()
    shards = vlib.shard_lines(lines, nshards, "%s_it" % c.pid.lower())
    res, mism, acc = vlib.validate_traces("Trace_Iter", shards, heap="3g")
    if acc != len(lines):
        raise vlib.ToolError("Trace_Iter consumed %d of %d events" % (acc, len(lines)))
    vlib.log('[validate] Trace_Iter: %d events in %.1fs' % (len(lines), time.time() - t0))
    by_id = {json.loads(l)["id"]: json.loads(l) for l in lines}
    verdicts = collections.Counter()
    nint, nruns, nontrivial = 0, 0, 0
    njumps, nunsound = 0, 0
    for r in res:
        c.add_tlc(r)
        for s in r.printed("STAT"):
            verdicts[s["v"]] += 1
            nint += s["n"]
            nruns += s["runs"]
            njumps += s.get("jumps", 0)
            nunsound += s.get("unsound", 0)
            if s["v"] == "ok" and (s["n"] > 1 or s["runs"] > 1):
                nontrivial += 1
    for m in mism:
        e = by_id.get(m["id"], {})
        if m["what"] == "harness":
            raise vlib.ToolError("harness recorded an inconsistent event: %s" % json.dumps(e)[:500])
        case = {k: e.get(k) for k in ("src", "ctx", "what", "from", "to", "t", "intervals", "state", "flags", "next_change",
                                      "bound", "next_change_b", "state_b", "complete", "sched", "expr")}
        case["verdict"] = m["what"]
        case["expected"] = m.get("expected")
        case["unsound_jumps"] = m.get("unsound_jumps")
        c.mismatch("%s: %s on %r (%s)%s" % (label, m["what"], e.get("src"), json.dumps(
            {k: e.get(k) for k in ("from", "to", "t", "next_change", "bound", "next_change_b") if k in e}),
            (" [unsound hint: jumps %s skip days that differ]" % json.dumps(m["unsound_jumps"])) if m.get("unsound_jumps") else ""), case)
    c.setv("iterator_day_jumps_checked_against_hint_contract", njumps)
    c.setv("unsound_jumps_seen", nunsound)
    return verdicts, nint, nruns, nontrivial


def classify(m):
    """Which clause a Trace_Iter verdict belongs to."""
    return m["case"].get("verdict")
