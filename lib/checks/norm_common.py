"""Shared by C07 and C13: MC_Normalize (paving model), replay of every enumerated rule sequence on the real normaliser, and the
recorded normalisation trace validated by Trace_Normalize."""
import collections
import json
import os

import vlib
from checks import common


def model_phase(c, tier):
    common.mc_phase(c, "MC_Normalize", cfg="MC_Normalize" if tier == "quick" else "MC_Normalize_thorough", workers=vlib.NCPU,
                    require_actions=False, timeout=7200, heap="12g")
    nv = vlib.tlc_expect_violation("MC_Normalize", cfg="MC_Normalize_coded", workers=4)
    c.setv("nonvacuity", "MC_Normalize_coded (is_val of the pinned tree): TLC finds a counterexample (%s)" % ",".join(nv.invariant_violated))
    g = vlib.tlc_ok("MC_Normalize", cfg="Gen_Normalize", workers=8, heap="8g", timeout=3600)
    cases = g.printed("REPLAY")
    path = os.path.join(vlib.WORK, "%s_model.ndjson" % c.pid.lower())
    with open(path, "w") as f:
        for x in cases:
            f.write(json.dumps(x) + "\n")
    out = vlib.ohv(["replay", "normalize", path])
    diffs, summary = [], None
    for line in out.splitlines():
        if line.startswith("DIFF "):
            diffs.append(json.loads(line[5:]))
        elif line.startswith("MISMATCH "):
            c.mismatch("normalising a sentence of the model failed: " + line[9:200], json.loads(line[9:]))
        elif line.startswith("SUMMARY "):
            summary = json.loads(line[8:])
    if summary is None:
        raise vlib.ToolError("no summary from the harness")
    c.add("traces_validated_against_impl", summary["behaviours"])
    c.setv("model_sequences_replayed", summary["behaviours"])
    c.setv("model_normal_form_equals_real", summary["extra"]["exact"])
    c.setv("model_deviations", len(diffs))
    # the canonical conversion (Frames.tla: inclusive/wrapping ranges <-> half-open pieces) composed with the paving, one real
    # dimension at a time: theorems (MC_Frames), then the model's normal form of 5 100 sentences against the real normaliser
    c.add_tlc(vlib.tlc_ok("MC_Frames", workers=1, heap="2g", timeout=900))
    # beyond the four instances: the covering theorem for EVERY dimension size, by the TLA+ proof system (a stretch on top of
    # the model checking; if tlapm cannot run here the outcome is only recorded)
    import subprocess
    try:
        pr = subprocess.run(["tlapm", "--threads", "4", "--nofp", "--cache-dir", os.path.join(vlib.WORK, "tlacache_%s" % c.pid.lower()),
                             "-I", vlib.SPEC, os.path.join(vlib.SPEC, "proofs", "FramesProofs.tla")],
                            stdout=subprocess.PIPE, stderr=subprocess.STDOUT, text=True, timeout=900, env=vlib.clean_env())
        last = [l for l in pr.stdout.splitlines() if "obligations" in l]
        c.setv("tlaps_FramesProofs_CoverAll", last[-1].strip() if last else "no result (rc=%d)" % pr.returncode)
    except Exception as exc:  # noqa: BLE001
        c.setv("tlaps_FramesProofs_CoverAll", "not run: %s" % str(exc)[:120])
    fpath = os.path.join(vlib.WORK, "%s_frames.ndjson" % c.pid.lower())
    vlib.tlc_ok("Gen_Frames", env={"OUT": fpath}, workers=1, heap="4g", timeout=1800)
    fcases = [json.loads(l) for l in open(fpath)]
    fout = vlib.ohv(["replay", "normalize", fpath])
    fdiffs, fsummary = [], None
    for line in fout.splitlines():
        if line.startswith("DIFF "):
            fdiffs.append(json.loads(line[5:]))
        elif line.startswith("MISMATCH "):
            c.mismatch("normalising a sentence of the frames model failed: " + line[9:200], json.loads(line[9:]))
        elif line.startswith("SUMMARY "):
            fsummary = json.loads(line[8:])
    if fsummary is None:
        raise vlib.ToolError("no summary from the harness (frames)")
    c.add("traces_validated_against_impl", fsummary["behaviours"])
    c.setv("frames_model", {"sentences": fsummary["behaviours"], "normal_form_equals_real": fsummary["extra"]["exact"],
                            "deviations": len(fdiffs)})
    # sentences on which the model's normal form is not the real one are added to the trace (their meaning is what counts)
    extra = os.path.join(vlib.WORK, "%s_extra_cases.ndjson" % c.pid.lower())
    with open(extra, "w") as f:
        for d in (diffs + fdiffs)[:3000]:
            f.write(json.dumps({"text": d["text"], "expect": "accept"}) + "\n")
        for x in cases[::37] + fcases[(c.seed % 11)::11]:
            f.write(json.dumps({"text": x["text"], "expect": "accept"}) + "\n")
        # every selector kind and spelling of Grammar.tla (one sentence in six, rotating with the seed; the boundary family always)
        gpath = os.path.join(vlib.WORK, "%s_grammar.ndjson" % c.pid.lower())
        vlib.tlc_ok("Gen_Grammar", env={"OUT": gpath}, heap="8g")
        ng = 0
        for i, l in enumerate(open(gpath)):
            g = json.loads(l)
            if g.get("expect") == "accept" and (g.get("family") == "edge" or (i + c.seed) % 6 == 0):
                f.write(json.dumps({"text": g["text"], "expect": "accept"}) + "\n")
                ng += 1
        c.setv("grammar_sentences_normalised", ng)
    return extra, cases


class Lines:
    """Length, first and last lines of a trace that is not kept in memory."""

    def __init__(self):
        self.n, self.head, self.tail = 0, [], []

    def push(self, l):
        self.n += 1
        if len(self.head) < 8:
            self.head.append(l)
        self.tail = (self.tail + [l])[-8:]

    def __len__(self):
        return self.n

    def __getitem__(self, k):
        if isinstance(k, slice):
            if (k.start or 0) < 0:
                return self.tail[k]
            return self.head[k]
        return self.tail[k] if k < 0 else self.head[k]


def trace_phase(c, tier, extra_cases, corrupt=0):
    # thorough: events carry whole sample years of both expressions (up to 100 kB each): many small shards keep every TLC's
    # heap below 3 GB and at most 14 of them run at once
    n, shards = (700, 16) if tier == "quick" else (12000, 96)
    path = os.path.join(vlib.WORK, "%s_trace.ndjson" % c.pid.lower())
    # + the rule-mix family (closed rule x span passing midnight x fallback) derived by TLC from the MC_DayEval alphabet
    _, mix = common.rule_mix_cases(c, 80 if tier == "quick" else 20)
    with open(extra_cases, "a") as f:
        for x in mix:
            f.write(json.dumps(x) + "\n")
    args = ["record", "normalize", "--seed", c.seed, "--n", n, "--cases", extra_cases]
    if corrupt:
        args += ["--corrupt", corrupt]
    vlib.ohv(args, stdout_path=path, timeout=7200)
    # the trace can be several GB at the thorough tier: it is streamed into the shards, never held in memory
    import re
    handles = [open(os.path.join(vlib.WORK, "%s_nz_%02d.ndjson" % (c.pid.lower(), i)), "w") for i in range(shards)]
    lines = Lines()
    with open(path) as f:
        for l in f:
            handles[lines.n % shards].write(l if l.endswith("\n") else l + "\n")
            lines.push(l.rstrip("\n"))
    for h in handles:
        h.close()
    files = [h.name for h in handles if os.path.getsize(h.name) > 0]
    res, mism, acc = vlib.validate_traces("Trace_Normalize", files, heap="3g", max_par=14)
    if acc != len(lines):
        raise vlib.ToolError("Trace_Normalize consumed %d of %d events" % (acc, len(lines)))
    # only the events named by a mismatch (and the first ones, for samples / self-tests) are parsed
    wanted = {m["id"] for m in mism} | set(range(1, 12))
    by_id = {}
    idre = re.compile(r'"id":(\d+)')
    with open(path) as f:
        for l in f:
            m = idre.search(l[:400]) or idre.search(l)
            if m and int(m.group(1)) in wanted:
                e = json.loads(l)
                by_id[e["id"]] = e
    verdicts, changed, windows = collections.Counter(), 0, 0
    for r in res:
        c.add_tlc(r)
        for s in r.printed("STAT"):
            verdicts[s["v"]] += 1
            changed += 1 if s["changed"] else 0
            windows += s["windows"]
    return lines, by_id, mism, verdicts, changed, windows
