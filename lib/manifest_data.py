"""Source of MANIFEST.json (bin/mkmanifest renders it). One entry per claimed property."""

HOOK_COMMITS = ["f529e9d", "ae52c2c", "9fa6d07"]
FIX_COMMITS = ["c71e8ce", "b266a7b", "3c8b2f5", "8a433c1", "8c9bd77", "b6b128e", "d4a32a0", "05b2e41", "7858fec", "23c0ca4", "3feca11", "c1f5fc8", "212cd41", "2e485b4", "6db0415", "949cfeb", "1ddf35d", "12cb9f2", "946de29", "bd5bc52", "907e0b2", "3fd5f50", "17977ea", "2e95b74", "7886f09", "f000f49"]

CHECKS = {
    "C19": dict(
        category="model_checking",
        technique="TLA+ spec ExtTime.tla; TLC model checks the counter machine and laws, generates exhaustive expected tables replayed on the real type, and validates recorded call histories",
        text="Exhaustive over the finite domains the property names: TLC computes from ExtTime.tla the expected result of "
             "new (all u8 x u8), from_mins_from_midnight (all u16), add_hours (all values x all i8), add_minutes (all values x "
             "all i16 through the validity interval, plus 14 full rows), Display, TryInto/From<NaiveTime> and ordering; the harness "
             "replays all ~2*10^8 cases on the real ExtendedTime. MC_ExtTime checks the counter machine (value = shadow integer sum, "
             "None exactly when out of 00:00..48:00) for all sequences of boundary offsets; Trace_ExtTime validates random call histories.",
        note="Trusted: TLC's evaluation of ExtTime.tla, the harness projection mins_from_midnight(), serde_json.",
        design_ref="8/C19",
    ),
    "C20": dict(
        category="model_checking",
        technique="TLA+ spec SortedVec.tla (union transcribed branch by branch); TLC model checks the union machine and laws, generates exhaustive expected tables replayed on the real type, validates recorded histories",
        text="MC_SortedVec explores the accumulator machine over all vectors (len<=3) of a 6-letter alphabet with one action per branch of "
             "the Rust union (coverage required for all five) and checks union = set union, commutativity and the recursion bound for all "
             "4096 subset pairs. Gen_SortedVec produces the expected From result of all 5461 vectors over {0..3} (len<=6), the union of "
             "all subset pairs and all query answers; the harness replays them and all 3*10^7 vector pairs. Long operands chosen after the structure "
             "of the merge - 5832 triples of runs owned by the left / right / both operands with lengths 1, 16, 17, 32, 64, 65, and 35 "
             "value-by-value interleavings of depth 8..100 over shared / one-sided lower parts - are emitted by TLC with their set union "
             "and replayed in both operand orders. Trace_SortedVec validates seeded random longer histories step by step.",
        note="Trusted: TLC's evaluation of SortedVec.tla; elements are integers (only Ord is used by the type).",
        design_ref="8/C20",
    ),
    "C15": dict(
        category="model_checking",
        technique="TLA+ spec CompactCalendar.tla (abstract set + concrete year window, refinement mapping); TLC model checks all insertion sequences over a small universe and streams of calendars, every reachable state is replayed on the real type, recorded histories are validated",
        text="MC_CompactCalendar explores every insertion sequence over a universe of 7 (quick) / 13 (thorough) dates in years -1..5 incl. "
             "the leap day: the reachable set closes (2^7 / 2^13 states), so refinement (concrete window = abstract set), window "
             "tightness (why derived equality is set equality), coded first_after = declarative strictly-next and newness hold for "
             "histories of every length over that universe; MC_CalStream checks that several calendars in one stream are read back "
             "exactly. Every reachable state is rebuilt on the real CompactCalendar in four insertion orders and every transition/query "
             "(also outside the window), the round trip and 3-calendar streams are compared with TLC's values; seeded random histories "
             "with years -262000..262000 are validated by Trace_CompactCalendar.",
        note="Trusted: TLC's evaluation of CompactCalendar.tla; bytes are observed through lengths only.",
        design_ref="8/C15",
    ),
    "C14": dict(
        category="model_checking",
        technique="TLA+ spec Schedule.tla (from_ranges / insert / addition / into_iter transcribed, laws stated declaratively); TLC shows the invariants inductive over all valid schedules of a small grid, every model transition is replayed on the real Schedule, recorded histories are judged by the laws",
        text="MC_Schedule (Inductive) starts from ANY valid schedule over a 2-slot (quick) / 3-slot (thorough: 2521 values, 1.27*10^7 transitions) "
             "grid with 3 kinds and comment sets, combines it with ANY valid operand in both orders and builds every from_ranges list of "
             "<=3 ranges incl. empty/inverted ones: validity, union, overlay and tiling laws are inductive, hence hold after every finite "
             "sequence or tree of from_ranges/addition over the grid. A config with the wrong merge must yield a TLC counterexample. "
             "Every transition of the reachable machine is replayed on the real type through the public API and compared with TLC's "
             "representation and tiling; seeded random histories at minute resolution are judged event by event by the laws in Trace_Schedule.",
        note="Trusted: TLC's evaluation of Schedule.tla; the cfg(ohrs_verif) accessor verif_ranges; ranges within 00:00-24:00.",
        design_ref="8/C14",
    ),
    "C01": dict(
        category="model_checking",
        technique="TLA+ spec Calendar/Selectors/TimeSel/Schedule/DayEval.tla (selector semantics + rule fold M1); TLC cross-checks the fold against a declarative reading on all rule sequences up to the bound, and recomputes every recorded day schedule of the real code from the logged AST (trace validation)",
        text="Model level: MC_Calendar (civil date / ISO week / Easter arithmetic, anchors from the repo's tests, 400-year period), MC_DayEval: "
             "the implementation-shaped fold equals the declarative reading of the property text on every sequence of <=2 (quick) / <=3 "
             "(thorough, 10^6) abstract rules (3 operators x 3 kinds x today/yesterday patterns x wrapping spans); a wrong reading yields a "
             "counterexample. Binding: the repo's 200 sample lines, every parsable string literal of its tests and seeded structured random "
             "expressions over the whole grammar are evaluated by the real schedule_at on critical and random days 1900..9999 with "
             "explicit holiday calendars and date-dependent sun events; Trace_DayEval recomputes each day from the AST the library "
             "evaluated and compares the tilings wherever the semantics are pinned (Det); skipped days are counted in evidence.",
        note="Trusted: TLC's evaluation of the specs; the spec's reading of the semantics (DESIGN.md appendix A, corners in 6.1 skipped); astjson.rs.",
        design_ref="8/C01",
    ),
    "C17": dict(
        category="model_checking",
        technique="TLA+ spec Schedule/DayEval.tla with comment provenance; TLC checks the comment clauses in MC_Schedule and validates the comments of every recorded day tiling of the real code (trace validation)",
        text="MC_Schedule shows inductively that addition and iteration never invent comments. Trace_DayEval checks on every recorded day "
             "tiling (expressions whose rules each carry their own comment, plus the repo corpus): comments are a subset of the rules' "
             "comments, empty outside 1900..9999 and when no rule contributes, and exactly the rule's comments for an open/unknown period "
             "that a single rule contributes with no other rule's period touching it; the runner checks sortedness/uniqueness of every "
             "recorded vector. The first-interval clause is checked by the interval-stream trace of C02.",
        note="Trusted: as C01; string order is checked by the runner (TLC has no order on strings).",
        design_ref="8/C17",
    ),
    "C02": dict(
        category="model_checking",
        technique="TLA+ spec Iterator.tla (machine M3 TimeDomainIterator + wrapper, declarative stream); TLC explores every day-tiling assignment x window x sound hint on a tiny calendar, and rebuilds the expected stream of every recorded window of the real iterator from schedule_at of every day (trace validation)",
        text="MC_Iterator: the iterator written step for step as the code (positioning, consume-until-next-kind, day jump by a nondeterministic "
             "but sound hint, clamps, take_while/clip wrapper) over 3 (quick) / 4 (thorough) supported days between a 'before 1900' and a "
             "'10000-01-01' day, 6 day shapes, all windows on a grid with sub-minute and inverted bounds: at termination the emitted list "
             "is exactly the pointwise partition; an unsound hint yields a TLC counterexample. Binding: iter_range of the real code on "
             "corpus / hint-branch family / random expressions with windows from minutes to open-ended; EVERY day of the window is "
             "evaluated with schedule_at (run-length encoded) and Trace_Iter requires the emitted intervals to equal the declarative "
             "stream, so no skipped day goes unexamined however long the skip. Hints.tla transcribes the day-jump hints (year / month / "
             "week / holiday selectors, their combination, the expression level with is_constant and the spill test): MC_Hints proves "
             "their contract over bounded parameters; the real next_change_hint (hook) is recorded on (expression, day) pairs and "
             "Trace_Hints judges it on the library's own tilings of the skipped days (verdict) and compares it with the transcription "
             "(diagnostic). Gen_Constant: every constant-shaped rule sequence TLC can build over a small alphabet goes through the real "
             "iterator.",
        note="Trusted: TLC, the library's own schedule_at as oracle (as the property states), the harness's run-length encoding.",
        design_ref="8/C02",
    ),
    "C03": dict(
        category="model_checking",
        technique="Iterator.tla: State / NextChange defined on the daily schedules; MC_Iterator invariant FirstOk; recorded state / is_* / next_change calls validated by Trace_Iter against schedule_at of every day up to the answer or to a horizon proving 'none'",
        text="Model: the first interval of the open-ended stream gives state and next_change (all schedules/instants of the tiny calendar). "
             "Binding: state, is_open/is_closed/is_unknown and next_change of the real code at selector boundaries, random and sub-minute "
             "instants; Trace_Iter re-derives both from the recorded day schedules: the answer must be the first change, strictly after t, "
             "below 10000-01-01; 'none' is confirmed up to 400 years after the last explicit year (Gregorian periodicity, MC_Calendar) when "
             "the expression allows it, otherwise counted as unverified in evidence.",
        note="Trusted: as C02; the periodicity argument for 'none' answers.",
        design_ref="8/C03",
    ),
    "C08": dict(
        category="model_checking",
        technique="Iterator.tla clamps (START/END) model checked in MC_Iterator; recorded range/point events at and far outside both bounds validated by Trace_Iter with the real bounds",
        text="Model: day 0 is before the range, day N+1 is 10000-01-01; windows start and end outside: closed outside, nothing before the "
             "requested start or after min(end, END), next_change never at/after END. Binding: instants at both bounds +-1 min / +-1 day / "
             "+-800 days and in years -262000 .. 262000, expressions straddling the bounds (9999, 1900, week 53, Dec 31 22:00-26:00, PH on "
             "the bounds ...): schedule_at must be one closed period outside, streams and next_change are re-derived as in C02/C03.",
        note="Trusted: as C02/C03.",
        design_ref="8/C08",
    ),
    "C16": dict(
        category="model_checking",
        technique="Iterator.tla with the interval-size bound (both exits as coded): BoundOk model checked; recorded bounded vs exact answers of the real code validated by Trace_Iter",
        text="Model: MC_Iterator_bound explores every schedule/window/hint with B = 1 and 2 days: the first interval's end is exact or none, "
             "exact whenever the exact change is within B-24h, none whenever beyond B, state unchanged. Binding: next_change/state with "
             "B from 1 day to 30 years at instants inside long intervals, compared with the library's exact answers (which C03's "
             "re-derivation checks in the same event); a sweep measures the exact distance D for family x critical instants and asks with "
             "bounds straddling D and D + 24 h (both edges of the contract); every bounded event also asks a window from the bounded "
             "evaluator, whose intervals must partition it (BoundPartition, model checked; the pinned behaviour is refuted).",
        note="Trusted: as C03; the exact answer is the library's unbounded next_change.",
        design_ref="8/C16",
    ),
    "C05": dict(
        category="other",
        technique="TLA+ grammar specification (Grammar.tla: spelling of every AST node under each documented relaxation + denotation); TLC enumerates bounded families of sentences with the AST they denote and checks the generator unambiguous; the real parser is run on every sentence",
        text="Bounded-exhaustive to the stated families: every selector kind and syntactic variant alone (years, months, dates with offsets / "
             "Easter / plus / day-number end bound, weeks, weekdays with nth / offsets / holidays, fixed / extended / wrapping / event / "
             "open-ended / repeated spans), pairs and triples of selector kinds, every modifier x comment combination, rule sequences <= 3 "
             "with every separator, each under 11 spelling variants (padding, off/closed, ':' / ': ' / ' ' after wide selectors, ';' forms, "
             "' - ', 'Jan1', 'week1'): ~3000 sentences whose AST must equal the denoted one field by field, plus 56 single-field corruptions "
             "and unsupported constructs that must return Err.",
        note="Trusted: TLC's evaluation of Grammar.tla; the grammar as transcribed from grammar.pest (no OSM wiki offline); comment-only rule kind not compared.",
        design_ref="8/C05",
    ),
    "C06": dict(
        category="translation_validation",
        technique="Grammar.tla / Gen_Grammar sentences + corpus + random expressions and their normal forms are printed and reparsed by the real code; Trace_Print (TLC) validates reparse success and equality of both evaluations on probe days, with DayEval.tla evaluating both ASTs as a diagnostic",
        text="Each (expression | normal form) is a translated program: to_string then parse. TLC requires: the printed form parses; the "
             "reparsed expression has the same tiling on every probe day (days straddle every selector bound of both expressions, range "
             "bounds, random days) in holiday / sun-event contexts; comments equal up to joining.",
        note="Trusted: the library's own evaluation as the oracle (differential); equivalence is decided on probe days only.",
        design_ref="8/C06",
    ),
    "C07": dict(
        category="model_checking",
        technique="TLA+ spec Normalize.tla (paving machine M4: cut_at / set / is_val / pop_filter / days_covered / emission); TLC checks meaning preservation on every rule sequence up to the bound, the model's normal form of every sequence is compared with the real normaliser's output, recorded normalisations are validated by Trace_Normalize",
        text="MC_Normalize: all sequences of <=2 (quick, 31879) / <=3 (thorough) canonical rules (2 operators x 3 kinds x comments x time x day "
             "ranges incl. split ones) over a 2-D domain: the normal form the paving model computes paints every cell like the original; with "
             "the pinned tree's is_val TLC finds the counterexample. The real normaliser's printed result equals the model's on every "
             "enumerated sequence (string equality, 31878/31878). Trace_Normalize: for corpus / model / random expressions the schedules of e "
             "and normalize(e) are equal on every day of whole sample years between the year cut points of both (run-length encoded) and on "
             "probe days, under holiday / sun-event contexts. Frames.tla (inclusive / wrapping ranges <-> half-open pieces, theorems in "
             "MC_Frames) composed with the paving gives the normal form of 5100 sentences over each real dimension (weekday, month, week, "
             "year): equal to the real normaliser's output on all of them. Gen_RuleMix: sequences combining a closed rule, a span passing "
             "midnight and a fallback rule, emitted by TLC, go through the real normaliser. Session.tla: 600 (quick) / 12000 (thorough) "
             "TLC-simulated client programs (parse / clone / with_context / normalize / drop / iterators) on real values: a normalised value "
             "with a history answers like the same expression built afresh WITHOUT normalisation under the same context (holidays, sun "
             "events, interval-size bound).",
        note="Trusted: TLC; the library's own evaluation as oracle (differential); sample years instead of all years; 2-D model of a 5-D paving.",
        design_ref="8/C07",
    ),
    "C13": dict(
        category="model_checking",
        technique="Normalize.tla: idempotence and well-formedness invariants model checked on every rule sequence up to the bound; recorded normalize / normalize-again / clone / thread / reparse results validated by Trace_Normalize",
        text="MC_Normalize: Normalize(Normalize(e)) = Normalize(e) and emitted rules are well formed for every sequence of the bounded domain; "
             "emission is a function of the paving (determinism by construction of the model). Binding: n2 = n1 as ASTs, equal results from a "
             "clone, another thread and OpeningHours::normalize, and the printed normal form parses, for corpus / model / random expressions.",
        note="Trusted: as C07; equivalence of the reparsed normal form is decided by C06.",
        design_ref="8/C13",
    ),
    "C09": dict(
        category="model_checking",
        technique="TLA+ spec Localize.tla (zone = offset table; Naive, Datetime with latest-on-fold and minute stepping over gaps) model checked over all small zone tables; recorded localized vs naive API answers around real chrono-tz transitions validated by Trace_Localize with the logged offset table",
        text="MC_Localize: every table with <=2 transitions of +-1..3 ticks on a 22-tick timeline: the mapped instant shows the wall clock, is the "
             "latest candidate, gaps are stepped over, Datetime is monotone (TLC shows monotonicity fails when two transitions are closer than "
             "their jumps; the separation is assumed and checked on every logged table). Binding: 22 (quick) / all ~600 (thorough) zones of "
             "chrono-tz incl. Lord_Howe (30 min DST), Apia / Kwajalein / Kiritimati (date line), Kathmandu, St_Johns, Troll; 3-6 transitions "
             "each (first, last, largest jump, random) x 5 expressions with boundaries inside the gap/fold x 25 instants from -2 h to +2 h "
             "(+-1 day), input given in UTC / Tokyo / New_York / Lord_Howe: state through the zone = state at the wall-clock time; "
             "next_change and every interval bound = Datetime(zone table, naive result); zone carried; bounds never go backwards.",
        note="Trusted: chrono-tz as the definition of zones (table extracted by probing + bisection), the naive API as oracle (differential), TLC.",
        design_ref="8/C09",
    ),
    "C10": dict(
        category="other",
        technique="Trace_HolidayDB.tla: Embedded[c][k] = Source[c][k] and consistency of ALL / iso_code / FromStr, decided by TLC on an exhaustive extraction through the real decode path against the source files",
        text="Exhaustive: for each of the 115 countries x {public, school}: the full iteration listing, count, a contains() scan of every day "
             "1990-01-01..2085-12-31, the first_after chain from 1989-12-31 and the PH / SH selector on every listed date +-1 day with the "
             "country's calendars attached; the country table is probed with every two-letter code AA..ZZ, lower case and long names. TLC "
             "compares with a JSON rendering (format conversion only) of opening-hours/data/holidays_*.txt (117257 lines).",
        note="The specification is a one-line equality: the value is in the exhaustive extraction, not in the model (stated in DESIGN.md).",
        design_ref="8/C10",
    ),
    "C11": dict(
        category="exploration",
        technique="Sun.tla (defaults, order constraints around mean solar noon in integer arithmetic, local = absolute + zone offset, coordinate acceptance rule); recorded event times of the real code on a lat/lon/date grid validated by Trace_Sun",
        text="Grid |lat| <= 60 deg (step 15 quick / 5 thorough, plus +-59.9, tropics) x lon -180..180 (step 30 / 7, plus +-179.99) x solstices, "
             "equinox and random dates 1900..2100: the four absolute instants are ordered, each local time is the instant shifted by the zone "
             "offset, after unwrapping modulo a day dawn < sunrise < noon-17min < noon+17min < sunset < dusk, `sunrise-sunset` is open at mean "
             "solar noon and closed at mean solar midnight; defaults without coordinates; acceptance of coordinates for every pair of boundary "
             "values, NaN and infinities, each accepted pair yielding a zone and evaluating.",
        note="Numeric accuracy of the `sunrise` crate is outside the technique; only order / consistency is decided. |lat| > 60 not claimed.",
        design_ref="8/C11",
    ),
    "C12": dict(
        category="model_checking",
        technique="TLA+ spec PyBinding.tla (constructor decision table M9, zone rule for returned datetimes); TLC checks the table total / deterministic and enumerates the argument space; every case is executed on the real Python extension and on the Rust core for the context the spec names; Trace_PyBinding compares (incl. the Session.tla observations: normalised object, interleaved iterator)",
        text="Gen_PyBinding: timezone x country (valid / lower case / unknown / long) x coords (5 valid incl. pole and antimeridian, out of range, "
             "NaN) x auto_country x auto_timezone ({omitted, None, True, False}) x 7 expressions (valid, invalid, the former panic witness): "
             "3168 cases with the outcome (exception class by precedence, or holidays source + locale kind) the table defines. The driver "
             "(CPython 3.11, extension built from /repo's working tree) constructs each, checks the exception class, validate(), str / repr / "
             "normalize, and queries state / is_* / next_change / intervals (open-ended: None at 10000-01-01; bounded) with naive and aware "
             "datetimes (UTC, Asia/Tokyo, context zone); `ohv core` evaluates the same through the Rust API; TLC requires equality and "
             "the zone rule (context zone, else input zone, else naive). The object normalize() returns is evaluated too (same context as the "
             "core's normal form), an intervals() iterator is consumed between other calls (Session.tla seen from Python), and one expression "
             "changes state inside the hour clocks skip / repeat, asked with aware inputs of Europe/Paris and America/New_York around the change.",
        note="Trusted: PyBinding.tla's reading of lib.rs; zoneinfo; gap/fold inputs are C09's; fixed-offset tzinfo (TypeError today) left open.",
        design_ref="8/C12",
    ),
    "C18": dict(
        category="exploration",
        technique="TLA+ spec Purity.tla (threads x lazily initialised statics) model checked for single initialisation, no partial read and termination; TLC-enumerated schedule skeletons are each run in a fresh harness process with racing threads and validated by Trace_Purity against a sequential reference; TLA+ spec Session.tla (values and their histories: Arc-shared expression cells, with_context / normalize / clone / drop, running iterators) model checked exhaustively (HeapImmutable, Frame), client programs simulated by TLC replayed on real values and compared with the same value built afresh",
        text="MC_Purity: all interleavings of 3 threads x 2 calls over 3 statics. Binding: 80 (quick) / 2500 (thorough) of the 3133 skeletons "
             "(2 threads x 2 calls, 3 threads x 1 first use, one 8-thread program), each in a fresh process so that the embedded holiday "
             "databases, country boundaries, time-zone finder / map and the Easter warning latch are initialised under the race; every "
             "response (incl. evaluation of a shared value, of clones interleaved with other expressions, normalisation) must equal the "
             "sequential single-threaded response; repeated sequential calls must agree. MC_Session: every history over 3 value slots, 2 expressions, 2 contexts, "
             "1 iterator, 3 allocations (140 469 states): no expression cell is written after allocation, a step changes the abstract value of its "
             "destination only; 'normalise through the shared pointer' is refuted (non-vacuity). 1200 (quick) / 40000 (thorough) TLC-simulated client "
             "programs of 16 steps are executed on real values; every value a step yields or inspects and every next() of a running iterator must "
             "answer (state, is_*, next_change, iter_range, schedule_at, to_string, ==, Hash) like the value (expression, normalised?, context) TLC "
             "computed for it, built afresh on another thread (contexts: none, synthetic sun events, the library's TzLocation with coordinates "
             "under two zones; holidays; interval-size bounds). Menu call coords_two_zones: the same coordinates under four zones, interleaved, "
             "judged by Sun.tla's law local event time = instant + zone offset. TLAPS proves HeapStep (no step writes an existing cell) for "
             "every parameter size.",
        note="Real interleavings inside LazyLock/Once are provoked, not controlled; the model assumes std's guarantees (stated in DESIGN.md).",
        design_ref="8/C18",
    ),
    "C04": dict(
        category="exploration",
        technique="Totality.tla (outcome alphabet {ok, err}, work bound in day schedules) + Grammar.tla / Gen_Totality choose the structured input space (sentences, corruptions, numeric extremes in every numeric slot, single-character mutations); every call of the real API runs under catch_unwind + watchdog with the hook's work counter; Trace_Totality accepts only explained returns",
        text="Inputs: every 8th (quick) / every (thorough) Gen_Grammar sentence and corruption, 944 numeric-extreme strings (27 values incl. 2^31, 2^63, "
             "2^64 +-1 in 35 numeric slots), 1164 prefixes / deletions / duplications / swaps of 8 representative sentences, the repo corpus, random "
             "expressions with all corners, seeded byte / Unicode noise, degenerate long inputs. Calls: parse, Display, normalize, is_constant, "
             "schedule_at, state, next_change, iter_from.take(5) at NaiveDateTime::MIN / MAX, years +-262000, both bounds +-1 min, leap day, DST "
             "night, random instants, under default, dense-holiday, bounded (0, 1 day, 30 years, TimeDelta::MAX) and zone + coordinates (poles, "
             "antimeridian, 69.6 N; Apia, Lord_Howe, St_Johns) contexts. Verdict: any panic, watchdog expiry (30 s) or excess over the work bound.",
        note="TLA+ says nothing about Rust panics: it contributes the input space and the acceptance rule; weakest fit of the technique (DESIGN.md 8/C04).",
        design_ref="8/C04",
    ),
}

NOT_APPLICABLE = {}

PENDING_REASON = "check not built yet (build in progress; see DESIGN.md section 13)"
