"""Common machinery of the /verif checks: building the harness, running TLC, sharded trace
validation, known-finding classification, evidence and verdict output.

Exit codes of a check: 0 = property held on everything explored (known findings are printed as
KNOWN-FINDING lines), 1 = at least one unlisted violation (VIOLATION line + replay file),
2 = tool error (cargo, TLC, python, time-out of a tool) -- never a verdict about the code.
"""
import json
import os
import re
import subprocess
import sys
import time
import random
import shutil
import concurrent.futures as cf

ROOT = os.path.dirname(os.path.dirname(os.path.abspath(__file__)))
SPEC = os.path.join(ROOT, "spec")
WORK = os.path.join(ROOT, "work")
HARNESS = os.path.join(ROOT, "harness")
EVID = os.path.join(ROOT, "evidence")
REPLAY = os.path.join(WORK, "replay")
BIN = os.path.join(WORK, "target", "release", "ohv")
NCPU = os.cpu_count() or 4


class ToolError(Exception):
    pass


def log(*a):
    print(*a, file=sys.stderr, flush=True)


def seed():
    try:
        return int(os.environ.get("VERIF_SEED", "1"))
    except ValueError:
        return 1


def ensure_dirs():
    for d in (WORK, EVID, REPLAY):
        os.makedirs(d, exist_ok=True)


def clean_env():
    env = dict(os.environ)
    env["CARGO_NET_OFFLINE"] = "true"
    env.pop("RUST_BACKTRACE", None)
    env["RUST_BACKTRACE"] = "0"
    return env


_built = False


def build_harness():
    """Rebuild the harness (and therefore /repo's crates, with hooks on) from the working tree."""
    global _built
    if _built:
        return BIN
    ensure_dirs()
    t0 = time.time()
    p = subprocess.run(
        ["cargo", "build", "--release", "--offline"],
        cwd=HARNESS, env=clean_env(), stdout=subprocess.PIPE, stderr=subprocess.STDOUT, text=True,
        timeout=1800,
    )
    if p.returncode != 0:
        log(p.stdout[-4000:])
        raise ToolError("cargo build of the harness failed")
    log("[build] harness built in %.1fs" % (time.time() - t0))
    _built = True
    return BIN


def ohv(args, stdin=None, timeout=3600, stdout_path=None, check=True):
    """Run the harness binary. Returns stdout (text) unless stdout_path is given."""
    build_harness()
    env = clean_env()
    out = open(stdout_path, "w") if stdout_path else subprocess.PIPE
    try:
        p = subprocess.run([BIN] + [str(a) for a in args], input=stdin, stdout=out, stderr=subprocess.PIPE,
                           text=True, timeout=timeout, env=env, cwd=WORK)
    except subprocess.TimeoutExpired:
        raise ToolError("harness time-out: ohv %s" % " ".join(map(str, args)))
    finally:
        if stdout_path:
            out.close()
    if check and p.returncode != 0:
        log(p.stderr[-4000:])
        raise ToolError("harness failed (rc=%d): ohv %s" % (p.returncode, " ".join(map(str, args))))
    return p.stdout if not stdout_path else None


# --------------------------------------------------------------------------------------------
# TLC
# --------------------------------------------------------------------------------------------

class TlcResult:
    def __init__(self, rc, out, wall):
        self.rc = rc
        self.out = out
        self.wall = wall
        m = re.search(r"(\d+) states generated, (\d+) distinct states found", out)
        self.generated = int(m.group(1)) if m else 0
        self.distinct = int(m.group(2)) if m else 0
        # for -simulate runs
        m2 = re.search(r"The number of states generated: (\d+)", out)
        if m2 and not m:
            self.generated = int(m2.group(1))
        self.no_error = "No error has been found" in out or "Finished computing initial states" in out and rc == 0
        self.invariant_violated = re.findall(r"Invariant (\S+) is violated", out)
        self.errors = [l for l in out.splitlines() if l.startswith("Error:")]

    def printed(self, tag):
        """Decode lines printed by PrintT(<<"TAG", ToJson(x)>>)."""
        res = []
        pref = '<<"%s", "' % tag
        for line in self.out.splitlines():
            if line.startswith(pref) and line.endswith('">>'):
                body = tla_unescape(line[len(pref):-3])
                try:
                    res.append(json.loads(body))
                except Exception:
                    raise ToolError("cannot decode TLC print: " + line[:200])
        return res

    def coverage_zero_actions(self):
        """Names of actions that TLC's -coverage report shows as never taken."""
        zero = []
        for m in re.finditer(r"<(\w+) line \d+, col \d+ to line \d+, col \d+ of module (\w+)(?: \([\d ]+\))?>: (\d+):(\d+)", self.out):
            if int(m.group(4)) == 0 and m.group(1) not in ("Init",):
                zero.append(m.group(1))
        return sorted(set(zero))


def tla_unescape(s):
    """Undo TLC's string pretty-printing (backslash escapes), left to right."""
    out, i, n = [], 0, len(s)
    while i < n:
        c = s[i]
        if c == "\\" and i + 1 < n:
            d = s[i + 1]
            out.append({"n": "\n", "t": "\t", "r": "\r", "f": "\f"}.get(d, d))
            i += 2
        else:
            out.append(c)
            i += 1
    return "".join(out)


_run_counter = [0]


def tlc(module, cfg=None, workers=1, env=None, timeout=1800, heap="4g", deque=False, coverage=False,
        simulate=None, depth=None, extra=None, tag=None):
    """Run TLC on spec/<module>.tla with spec/<cfg or module>.cfg. Raises ToolError on time-out or
    on a TLC-level failure that is not a property violation."""
    ensure_dirs()
    _run_counter[0] += 1
    tag = tag or "%s_%d_%d" % (module, os.getpid(), _run_counter[0])
    meta = os.path.join(WORK, "tlc", tag)
    shutil.rmtree(meta, ignore_errors=True)
    os.makedirs(meta, exist_ok=True)
    jopts = "-Xss512m -Xmx%s" % heap
    if deque:
        jopts += " -Dtlc2.tool.queue.IStateQueue=StateDeque"
    e = clean_env()
    e["JAVA_TOOL_OPTIONS"] = jopts
    if env:
        e.update({k: str(v) for k, v in env.items()})
    cmd = ["tlc", "-workers", str(workers), "-metadir", meta, "-cleanup", "-noGenerateSpecTE",
           "-config", (cfg or module) + ".cfg"]
    if coverage:
        cmd += ["-coverage", "1"]
    if simulate:
        cmd += ["-simulate", "num=%d" % simulate]
        if depth:
            cmd += ["-depth", str(depth)]
    if extra:
        cmd += extra
    cmd += [module + ".tla"]
    t0 = time.time()
    try:
        p = subprocess.run(cmd, cwd=SPEC, env=e, stdout=subprocess.PIPE, stderr=subprocess.STDOUT, text=True,
                           timeout=timeout)
    except subprocess.TimeoutExpired:
        shutil.rmtree(meta, ignore_errors=True)
        raise ToolError("TLC time-out (%ds) on %s" % (timeout, module))
    shutil.rmtree(meta, ignore_errors=True)
    out = "\n".join(l for l in p.stdout.splitlines() if not l.startswith("Picked up JAVA_TOOL_OPTIONS"))
    return TlcResult(p.returncode, out, time.time() - t0)


def tlc_ok(module, **kw):
    """Run TLC and require a clean completion (used for MC configs whose invariants are model-level)."""
    r = tlc(module, **kw)
    if r.rc != 0 or not r.no_error:
        log(r.out[-6000:])
        raise ToolError("TLC did not complete cleanly on %s (rc=%d)" % (module, r.rc))
    return r


def tlc_expect_violation(module, **kw):
    """Run a deliberately unsound configuration: TLC must find a counterexample (non-vacuity)."""
    r = tlc(module, **kw)
    if r.rc == 0 or not (r.invariant_violated or "is violated" in r.out):
        log(r.out[-4000:])
        raise ToolError("non-vacuity config %s/%s did not produce a counterexample" % (module, kw.get("cfg")))
    return r


def sany(module):
    p = subprocess.run(["tla-sany", module + ".tla"], cwd=SPEC, stdout=subprocess.PIPE, stderr=subprocess.STDOUT,
                       text=True, timeout=300, env=clean_env())
    ok = p.returncode == 0 and "Semantic errors" not in p.stdout and "Parse Error" not in p.stdout \
        and "Could not parse" not in p.stdout and "Fatal" not in p.stdout
    return ok, p.stdout


def validate_traces(trace_module, files, cfg=None, timeout=3600, heap="3g", extra_env=None, max_par=None):
    """Run one single-worker TLC per trace shard (env TRACE=<file>), in parallel.
    Returns (list of TlcResult, all decoded MISMATCH records, number of accepted events)."""
    max_par = max_par or min(NCPU, 14)
    results = []

    def one(f):
        env = {"TRACE": f}
        if extra_env:
            env.update(extra_env)
        return tlc(trace_module, cfg=cfg, workers=1, env=env, timeout=timeout, heap=heap, deque=True,
                   tag="%s_%s" % (trace_module, os.path.basename(f)))

    with cf.ThreadPoolExecutor(max_workers=max_par) as ex:
        results = list(ex.map(one, files))
    mism, accepted = [], 0
    for f, r in zip(files, results):
        if r.rc != 0 or not r.no_error:
            log(r.out[-6000:])
            raise ToolError("trace validation TLC run failed on %s (rc=%d)" % (f, r.rc))
        mism += r.printed("MISMATCH")
        for d in r.printed("ACCEPTED"):
            accepted += int(d.get("n", 0))
    return results, mism, accepted


def shard_lines(lines, nshards, prefix):
    """Write lines round-robin to nshards ndjson files under work/; return the non-empty paths."""
    ensure_dirs()
    nshards = max(1, min(nshards, len(lines)))
    paths = []
    for i in range(nshards):
        part = lines[i::nshards]
        if not part:
            continue
        path = os.path.join(WORK, "%s_%02d.ndjson" % (prefix, i))
        with open(path, "w") as f:
            for l in part:
                f.write(l if l.endswith("\n") else l + "\n")
        paths.append(path)
    return paths


# --------------------------------------------------------------------------------------------
# Known findings
# --------------------------------------------------------------------------------------------

def load_known_findings(pid):
    path = os.path.join(ROOT, "known_findings.json")
    if not os.path.exists(path):
        return []
    with open(path) as f:
        data = json.load(f)
    return [e for e in data.get("findings", []) if pid in e.get("properties", [e.get("property")])]


# --------------------------------------------------------------------------------------------
# Result / evidence
# --------------------------------------------------------------------------------------------

class Check:
    """Accumulates what a check run covered, its mismatches, and produces verdict + evidence."""

    def __init__(self, pid, level, tier, selftest=False):
        self.pid = pid
        self.selftest = selftest
        self.level = level
        self.tier = tier
        self.seed = seed()
        self.t0 = time.time()
        self.cov = {"samples": []}
        self.assumptions = []
        self.mismatches = []      # dicts: {"what":..., "case":...}
        self.known_seen = {}
        self.rng = random.Random(self.seed * 7919 + sum(map(ord, pid)))
        self.notes = []
        ensure_dirs()

    def add(self, key, n):
        self.cov[key] = int(self.cov.get(key, 0)) + int(n)

    def setv(self, key, v):
        self.cov[key] = v

    def sample(self, case, limit=6):
        s = self.cov["samples"]
        if len(s) < limit:
            s.append(case)
        else:
            # reservoir-ish: replace a random non-first slot occasionally
            if self.rng.random() < 0.02:
                s[1 + self.rng.randrange(limit - 1)] = case

    def add_tlc(self, r):
        self.add("states", r.distinct)
        self.add("transitions", r.generated)

    def mismatch(self, what, case, matcher_ctx=None):
        self.mismatches.append({"what": what, "case": case, "ctx": matcher_ctx})

    def finish(self, matchers=None):
        """matchers: dict finding-id -> function(mismatch) -> bool"""
        matchers = matchers or {}
        kfs = load_known_findings(self.pid)
        open_kfs = [k for k in kfs if k.get("status") == "open"]
        violations = []
        for m in self.mismatches:
            hit = None
            for k in open_kfs:
                fn = matchers.get(k["id"])
                try:
                    if fn and fn(m):
                        hit = k
                        break
                except Exception as ex:  # a matcher bug must not hide a violation
                    log("matcher %s raised %r" % (k["id"], ex))
            if hit:
                self.known_seen.setdefault(hit["id"], [hit, 0])
                self.known_seen[hit["id"]][1] += 1
            else:
                violations.append(m)
        for kid, (k, n) in sorted(self.known_seen.items()):
            print("KNOWN-FINDING: property=%s %s: %s (%d occurrence(s) in this run)" % (self.pid, kid, k["what"], n))
        rc = 0
        paths = []
        for i, v in enumerate(violations[:20]):
            path = os.path.join(REPLAY, "%s_%s%s_%d.json" % (self.pid, self.tier, "_selftest" if self.selftest else "", i))
            with open(path, "w") as f:
                json.dump({"property": self.pid, "what": v["what"], "case": v["case"], "seed": self.seed}, f, indent=1)
            paths.append(path)
            print("%sVIOLATION property=%s replay=%s" % ("SELFTEST-" if self.selftest else "", self.pid, path))
            log("  -> %s" % v["what"])
            rc = 1
        self.cov["known_findings_seen"] = {k: n for k, (_, n) in self.known_seen.items()}
        ev = {
            "property_id": self.pid,
            "tier": self.tier,
            "seed": self.seed,
            "level": self.level,
            "coverage": self.cov,
            "assumptions": self.assumptions,
            "wall_s": round(time.time() - self.t0, 2),
            "violations": len(violations),
        }
        if self.notes:
            ev["coverage"]["notes"] = self.notes
        if not self.selftest:
            with open(os.path.join(EVID, "%s.json" % self.pid), "w") as f:
                json.dump(ev, f, indent=1, sort_keys=True)
        log("[%s] tier=%s wall=%.1fs violations=%d known=%s" % (
            self.pid, self.tier, time.time() - self.t0, len(violations), dict(self.cov["known_findings_seen"])))
        return rc
