#!/usr/bin/env python3
"""C12 driver: executes every constructor-argument combination enumerated by TLC (Gen_PyBinding) against the real Python
extension built from /repo, with naive and aware datetimes, and logs what Python sees (one JSON line per case).
Usage: driver.py <cases.ndjson> <ext-dir> > observations.ndjson"""
import datetime
import json
import sys
import traceback
from zoneinfo import ZoneInfo

cases_path, ext_dir = sys.argv[1], sys.argv[2]
sys.path.insert(0, ext_dir)
import opening_hours as oh  # noqa: E402

COORDS = {"none": None, "paris": (48.8535, 2.34839), "tokyo": (35.6762, 139.6503), "ocean": (-45.0, -140.0),
          "invalid_lat": (91.0, 0.0), "invalid_nan": (float("nan"), 10.0), "pole": (90.0, 0.0), "antimeridian": (10.0, 180.0)}


def dt_json(d):
    if d is None:
        return None
    tz = getattr(d.tzinfo, "key", None) if d.tzinfo is not None else None
    if d.tzinfo is not None and tz is None:
        tz = str(d.tzinfo)
    return {"wall": d.replace(tzinfo=None).isoformat(timespec="seconds"), "tz": tz if tz is not None else "naive",
            "utc": int(d.timestamp()) if d.tzinfo is not None else -1}


def exc_name(e):
    return type(e).__name__


def main():
    for line in open(cases_path):
        case = json.loads(line)
        obs = {"id": case["id"]}
        kwargs = {}
        if case["tz"] != "none":
            kwargs["timezone"] = ZoneInfo(case["tz"])
        if case["country"] != "none":
            kwargs["country"] = case["country"]
        if case["coords"] != "none":
            kwargs["coords"] = COORDS[case["coords"]]
        if case["auto_country"] != "omitted":
            kwargs["auto_country"] = {"true": True, "false": False, "none": None}[case["auto_country"]]
        if case["auto_timezone"] != "omitted":
            kwargs["auto_timezone"] = {"true": True, "false": False, "none": None}[case["auto_timezone"]]
        try:
            obs["validate"] = oh.validate(case["expr"])
        except BaseException as e:  # noqa: BLE001
            obs["validate"] = "EXC:" + exc_name(e)
        try:
            o = oh.OpeningHours(case["expr"], **kwargs)
            obs["constructed"] = "ok"
        except BaseException as e:  # noqa: BLE001
            obs["constructed"] = exc_name(e)
            obs["is_oh_error"] = {"ParserError": isinstance(e, oh.ParserError), "UnknownCountryError": isinstance(e, oh.UnknownCountryError),
                                  "InvalidCoordinatesError": isinstance(e, oh.InvalidCoordinatesError)}
            print(json.dumps(obs))
            continue
        try:
            obs["str"] = str(o)
            obs["repr"] = repr(o)
            n = o.normalize()
            obs["normalize_str"] = str(n)
            obs["eq_self"] = (o == oh.OpeningHours(case["expr"], **kwargs))
            # a call without time must not raise (current time)
            obs["now_ok"] = o.state() is not None and isinstance(o.is_open(), bool)
        except BaseException as e:  # noqa: BLE001
            obs["meta_exc"] = exc_name(e)
        calls = []
        for d in case["datetimes"]:
            wall = datetime.datetime.fromisoformat(d["wall"])
            t = wall if d["tz"] == "naive" else wall.replace(tzinfo=ZoneInfo(d["tz"]))
            rec = {"dt": d}
            try:
                st = o.state(t)
                rec["state"] = str(st)
                rec["flags"] = [o.is_open(t), o.is_closed(t), o.is_unknown(t)]
                rec["next_change"] = dt_json(o.next_change(t))
                ivs = []
                it = o.intervals(t)
                for _ in range(4):
                    try:
                        a, b, k, c = next(it)
                    except StopIteration:
                        break
                    ivs.append([dt_json(a), dt_json(b), str(k), list(c)])
                rec["intervals"] = ivs
                # Session.tla on the Python side: the object normalize() returns keeps the context; an iterator consumed between
                # other calls (on the object, on its normal form, on a second iterator of the same object) gives the stream's elements
                nn = o.normalize()
                nrec = {"state": str(nn.state(t)), "next_change": dt_json(nn.next_change(t)), "intervals": []}
                it1 = o.intervals(t)
                it2 = nn.intervals(t)
                it3 = o.intervals(t)
                inter = []
                for step in range(4):
                    try:
                        a, b, k, c = next(it1)
                        inter.append([dt_json(a), dt_json(b), str(k), list(c)])
                    except StopIteration:
                        break
                    o.is_open(t)
                    if step < 3:
                        try:
                            a, b, k, c = next(it2)
                            nrec["intervals"].append([dt_json(a), dt_json(b), str(k), list(c)])
                        except StopIteration:
                            pass
                    try:
                        next(it3)
                        next(it3)
                    except StopIteration:
                        pass
                    if step == 1:
                        del nn
                rec["norm"] = nrec
                rec["interleaved"] = inter
                # a window whose bounds are given differently: aware start + naive end, naive start + aware (UTC) end. The zone rule then
                # takes the zone of whichever bound has one (context zone first)
                if wall.year < 9999:
                    later = wall + datetime.timedelta(days=3)
                    end2 = later if t.tzinfo is not None else later.replace(tzinfo=ZoneInfo("UTC"))
                    rec["intervals_mixed"] = [[dt_json(a), dt_json(b), str(k), list(c)] for a, b, k, c in o.intervals(t, end2)][:12]
                else:
                    rec["intervals_mixed"] = []
                if wall.year == 9999 and wall.month == 12 and wall.day > 28:
                    rec["intervals_bounded"] = []      # the end of the window cannot be written as a Python datetime
                else:
                    end = t + datetime.timedelta(days=3)
                    rec["intervals_bounded"] = [[dt_json(a), dt_json(b), str(k), list(c)] for a, b, k, c in o.intervals(t, end)][:12]
            except BaseException as e:  # noqa: BLE001
                rec["exc"] = exc_name(e)
                rec["exc_text"] = str(e)[:200]
            calls.append(rec)
        obs["calls"] = calls
        print(json.dumps(obs))


if __name__ == "__main__":
    try:
        main()
    except Exception:
        traceback.print_exc()
        sys.exit(2)
