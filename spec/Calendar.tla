------------------------------- MODULE Calendar -------------------------------
(* Proleptic Gregorian calendar arithmetic on day numbers (days since 1970-01-01),      *)
(* as opening-hours-rs obtains it from chrono: civil date <-> day number, weekday,      *)
(* leap years, month lengths, ISO-8601 week numbers, and the date of Easter             *)
(* (anonymous Gregorian algorithm, utils/dates.rs).                                     *)
EXTENDS Integers

\* supported range of the library: 1900-01-01 .. 9999-12-31
IsLeap(y) == (y % 4 = 0 /\ y % 100 # 0) \/ y % 400 = 0
DaysInMonth(y, m) ==
  CASE m \in {1, 3, 5, 7, 8, 10, 12} -> 31
    [] m \in {4, 6, 9, 11} -> 30
    [] OTHER -> IF IsLeap(y) THEN 29 ELSE 28
ValidYMD(y, m, d) == m \in 1..12 /\ d >= 1 /\ d <= DaysInMonth(y, m)

\* days since 1970-01-01 of a valid civil date (\div is floor division, % is non-negative)
DaysFromCivil(y, m, d) ==
  LET yy  == IF m <= 2 THEN y - 1 ELSE y
      era == yy \div 400
      yoe == yy - era * 400
      mp  == IF m > 2 THEN m - 3 ELSE m + 9
      doy == (153 * mp + 2) \div 5 + d - 1
      doe == yoe * 365 + yoe \div 4 - yoe \div 100 + doy
  IN era * 146097 + doe - 719468

\* <<year, month, day>> of a day number
CivilFromDays(n) ==
  LET z   == n + 719468
      era == z \div 146097
      doe == z - era * 146097
      yoe == (doe - doe \div 1460 + doe \div 36524 - doe \div 146096) \div 365
      doy == doe - (365 * yoe + yoe \div 4 - yoe \div 100)
      mp  == (5 * doy + 2) \div 153
      d   == doy - (153 * mp + 2) \div 5 + 1
      m   == IF mp < 10 THEN mp + 3 ELSE mp - 9
      y   == yoe + era * 400 + (IF m <= 2 THEN 1 ELSE 0)
  IN <<y, m, d>>

YearOf(n)  == CivilFromDays(n)[1]
MonthOf(n) == CivilFromDays(n)[2]
DayOf(n)   == CivilFromDays(n)[3]

\* 0 = Monday .. 6 = Sunday (1970-01-01 was a Thursday)
Weekday(n) == (n + 3) % 7

\* ISO-8601: the week belongs to the year of its Thursday; <<iso year, week number>>
IsoWeek(n) ==
  LET thursday == n - Weekday(n) + 3
      iy == YearOf(thursday)
  IN <<iy, (thursday - DaysFromCivil(iy, 1, 1)) \div 7 + 1>>
WeekNum(n) == IsoWeek(n)[2]

\* Easter Sunday of year y (day number), anonymous Gregorian algorithm; y > 0
Easter(y) ==
  LET a == y % 19
      b == y \div 100
      c == y % 100
      d == b \div 4
      e == b % 4
      f == (b + 8) \div 25
      g == (b - f + 1) \div 3
      h == (19 * a + b - d - g + 15) % 30
      i == c \div 4
      k == c % 4
      l == (32 + 2 * e + 2 * i - h - k) % 7
      m == (a + 11 * h + 22 * l) \div 451
      n == (h + l - 7 * m + 114) \div 31
      o == (h + l - 7 * m + 114) % 31
  IN DaysFromCivil(y, n, o + 1)

DateStart == DaysFromCivil(1900, 1, 1)      \* -25567
DateEnd   == DaysFromCivil(10000, 1, 1)     \* 2932897 (exclusive)
InRange(n) == n >= DateStart /\ n < DateEnd
=============================================================================
