--------------------------- MODULE CompactCalendar ---------------------------
(* compact-calendar: a set of dates stored as a window of consecutive years, each year  *)
(* twelve 32-bit day bitmaps (CompactCalendar / CompactYear / CompactMonth).             *)
(*                                                                                       *)
(* A date is a triple <<y, m, d>>. The abstract state is a set of dates; the concrete    *)
(* state is (first, years) where years is a sequence of sets of <<m, d>>, one per year   *)
(* of the window [first, first + Len(years) - 1]. Actions and queries are written the    *)
(* way lib.rs computes them; the declarative versions say what they must mean.           *)
EXTENDS Integers, Sequences, FiniteSets, TLC

None == <<>>                                    \* Rust's Option::None for dates

Ord(dt) == dt[1] * 372 + (dt[2] - 1) * 31 + (dt[3] - 1)      \* order-preserving code
Lt(a, b) == Ord(a) < Ord(b)

Empty == [first |-> 0, years |-> <<>>]          \* Default::default()

\* the abstraction function (refinement mapping)
AbsOf(c) == {<<c.first + i - 1, md[1], md[2]>> : <<i, md>> \in
                UNION {{<<i, md>> : md \in c.years[i]} : i \in DOMAIN c.years}}

Repeat(x, n) == [i \in 1..n |-> x]

\* year_for(date): index into the window, or 0
YearIdx(c, dt) == LET i == dt[1] - c.first + 1
                  IN IF i >= 1 /\ i <= Len(c.years) THEN i ELSE 0

\* insert(date), as coded: four cases
InsertCase(c, dt) ==
  IF YearIdx(c, dt) # 0 THEN "in_window"
  ELSE IF c.years = <<>> THEN "first_insert"
  ELSE IF dt[1] < c.first THEN "grow_front"
  ELSE "grow_back"

Insert(c, dt) ==
  LET md == <<dt[2], dt[3]>>
      grown ==
        CASE InsertCase(c, dt) = "in_window"    -> c
          [] InsertCase(c, dt) = "first_insert" -> [first |-> dt[1], years |-> <<{}>>]
          [] InsertCase(c, dt) = "grow_front"   ->
               [first |-> dt[1], years |-> Repeat({}, c.first - dt[1]) \o c.years]
          [] OTHER ->
               LET last == c.first + Len(c.years) - 1
               IN [first |-> c.first, years |-> c.years \o Repeat({}, dt[1] - last)]
      i == dt[1] - grown.first + 1
  IN [grown EXCEPT !.years[i] = @ \cup {md}]

InsertIsNew(c, dt) == dt \notin AbsOf(c)        \* return value of insert

Holds(c, dt) == LET i == YearIdx(c, dt)         \* contains(date)
                IN i # 0 /\ <<dt[2], dt[3]>> \in c.years[i]

Count(c) == Cardinality(AbsOf(c))

\* minimum of a non-empty set of dates
MinDate(S) == CHOOSE x \in S : \A y \in S : Ord(x) <= Ord(y)

\* first_after(date), declaratively: the strictly next member
FirstAfter(S, dt) == LET later == {x \in S : Lt(dt, x)}
                     IN IF later = {} THEN None ELSE MinDate(later)

\* first_after(date), as coded: inside the year, then the following years of the window;
\* before the window: the first member; after the window: none
FirstAfterCoded(c, dt) ==
  LET i == YearIdx(c, dt) IN
  IF i # 0 THEN
    LET same == {md \in c.years[i] : Lt(<<0, dt[2], dt[3]>>, <<0, md[1], md[2]>>)}
        nexts == {j \in (i + 1)..Len(c.years) : c.years[j] # {}}
    IN IF same # {} THEN LET md == MinDate({<<0, x[1], x[2]>> : x \in same}) IN <<dt[1], md[2], md[3]>>
       ELSE IF nexts = {} THEN None
       ELSE LET j == CHOOSE j \in nexts : \A k \in nexts : j <= k
                md == MinDate({<<0, x[1], x[2]>> : x \in c.years[j]})
            IN <<c.first + j - 1, md[2], md[3]>>
  ELSE IF dt[1] < c.first THEN (IF AbsOf(c) = {} THEN None ELSE MinDate(AbsOf(c)))
  ELSE None

\* serialisation: one i32 (first year), one usize (window length), 12 u32 per year
ByteLen(c) == 4 + 8 + 48 * Len(c.years)

-----------------------------------------------------------------------------
(* The serialised form, word by word (first year, window length, then one 31-bit day    *)
(* mask per month), and the reader that consumes exactly one calendar from a position   *)
(* of a shared stream.                                                                   *)
DayMask(mds, m) == LET ds == {md[2] : md \in {x \in mds : x[1] = m}}
                       RECURSIVE Sum(_)
                       Sum(T) == IF T = {} THEN 0 ELSE LET d == CHOOSE d \in T : TRUE IN 2 ^ (d - 1) + Sum(T \ {d})
                   IN Sum(ds)
YearWords(mds) == [m \in 1..12 |-> DayMask(mds, m)]
RECURSIVE Flatten(_)
Flatten(ss) == IF ss = <<>> THEN <<>> ELSE Head(ss) \o Flatten(Tail(ss))
Words(c) == <<c.first, Len(c.years)>> \o Flatten([i \in DOMAIN c.years |-> YearWords(c.years[i])])

DaysOfMask(w) == {d \in 1..31 : (w \div (2 ^ (d - 1))) % 2 = 1}
\* read one calendar starting at word position pos (1-based); result: [cal, next]
ReadAt(ws, pos) ==
  LET first == ws[pos]
      len   == ws[pos + 1]
      year(i) == UNION {{<<m, d>> : d \in DaysOfMask(ws[pos + 2 + 12 * (i - 1) + (m - 1)])} : m \in 1..12}
  IN [cal |-> [first |-> first, years |-> [i \in 1..len |-> year(i)]], next |-> pos + 2 + 12 * len]
WordLen(c) == 2 + 12 * Len(c.years)

\* representation invariant: the window is exactly [min year, max year] of the members, hence
\* derived equality of (first, years) is set equality for calendars reached by insertions
Years(S) == {x[1] : x \in S}
WindowTight(c) ==
  LET S == AbsOf(c) IN
  IF S = {} THEN c.years = <<>>
  ELSE /\ c.first = CHOOSE y \in Years(S) : \A z \in Years(S) : y <= z
       /\ c.first + Len(c.years) - 1 = CHOOSE y \in Years(S) : \A z \in Years(S) : y >= z
=============================================================================
