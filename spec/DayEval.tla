-------------------------------- MODULE DayEval --------------------------------
(* The schedule of one day: machine M1, the left-to-right fold over the rules of an       *)
(* expression (opening_hours.rs schedule_at), one RuleStep per rule.                      *)
(*                                                                                        *)
(*   state  = [pm : a rule matched the day itself, some : a schedule exists, v : schedule]*)
(*   normal rule, open/unknown : replaces the schedule when it matches the day            *)
(*   additional rule, closed   : overlays its periods                                     *)
(*   fallback rule             : considered only if nothing non-closed was left so far    *)
(*                                                                                        *)
(* `Det` collects the corners where the documented semantics do not pin the result.       *)
EXTENDS Selectors, TimeSel, Schedule

CSet(rule) == SeqToSet(rule.comments)

\* contribution of one rule to day n: today's part if it matches n, the spill of n - 1 if it
\* matched n - 1 (rule_sequence_schedule_at)
RuleEval(rule, n, ctx) ==
  LET mt    == DayMatch(rule, n, ctx)
      my    == DayMatch(rule, n - 1, ctx)
      today == FromRanges(TodayRanges(rule, n, ctx), rule.kind, CSet(rule))
      yest  == FromRanges(SpillRanges(rule, n - 1, ctx), rule.kind, CSet(rule))
  IN [match |-> mt,
      some  |-> mt \/ my,
      spill |-> my /\ yest # <<>>,
      v     |-> IF mt /\ my THEN Addition(today, yest) ELSE IF mt THEN today ELSE IF my THEN yest ELSE <<>>]

Start == [pm |-> FALSE, some |-> FALSE, v |-> <<>>, undet |-> FALSE, afterFallback |-> FALSE]

\* one step of the fold; `undet` accumulates the corners (DESIGN.md 6.1):
\*  - a period that exists only as the spill of a rule not matching the day is replaced by a later
\*    normal rule matching the day
\*  - normal / additional rules that follow a fallback rule
RuleStep(st, rule, n, ctx) ==
  LET cur == RuleEval(rule, n, ctx)
      spillOnlyPrev == ~st.pm /\ st.some /\ st.v # <<>>
      late == st.afterFallback /\ rule.op # "fallback" /\ cur.some
  IN
  IF rule.op = "fallback" THEN
       \* a period that is not closed covers the day, whether it started today or spilled from yesterday
       IF st.some /\ ~IsAlwaysClosed(st.v)
       THEN [st EXCEPT !.afterFallback = TRUE]
       ELSE [pm |-> cur.match, some |-> cur.some, v |-> cur.v,
             undet |-> st.undet, afterFallback |-> TRUE]
  ELSE IF rule.op = "normal" /\ rule.kind # "closed" THEN
       IF cur.match
       THEN [pm |-> TRUE, some |-> TRUE, v |-> cur.v,
             undet |-> st.undet \/ late \/ spillOnlyPrev, afterFallback |-> st.afterFallback]
       \* not matching the day: only its spill (if it matched the previous day) shows, as an overlay
       ELSE [pm |-> st.pm, some |-> st.some \/ cur.some,
             v |-> IF st.some /\ cur.some THEN Addition(st.v, cur.v) ELSE IF st.some THEN st.v ELSE cur.v,
             undet |-> st.undet \/ late, afterFallback |-> st.afterFallback]
  ELSE \* additional rule, or normal closed rule: overlay
       [pm |-> st.pm \/ cur.match, some |-> st.some \/ cur.some,
        v |-> IF st.some /\ cur.some THEN Addition(st.v, cur.v) ELSE IF st.some THEN st.v ELSE cur.v,
        undet |-> st.undet \/ late, afterFallback |-> st.afterFallback]

RECURSIVE Fold(_, _, _, _, _)
Fold(st, rules, i, n, ctx) == IF i > Len(rules) THEN st ELSE Fold(RuleStep(st, rules[i], n, ctx), rules, i + 1, n, ctx)

\* schedule_at(expr, n): closed outside the supported range whatever the rules
DaySchedule(expr, n, ctx) == IF InRange(n) THEN Fold(Start, expr.rules, 1, n, ctx).v ELSE <<>>
DayTiling(expr, n, ctx)   == Tiling(DaySchedule(expr, n, ctx))

\* is the day's schedule pinned down ?
RuleDet(rule, n, ctx) ==
  /\ DayDet(rule, n) /\ DayDet(rule, n - 1)
  /\ (DayMatch(rule, n, ctx) => TimeDet(rule, n, ctx))
  /\ (DayMatch(rule, n - 1, ctx) => TimeDet(rule, n - 1, ctx))
Det(expr, n, ctx) ==
  \/ ~InRange(n)
  \/ /\ \A i \in DOMAIN expr.rules : RuleDet(expr.rules[i], n, ctx)
     /\ ~Fold(Start, expr.rules, 1, n, ctx).undet
     /\ (n > DateStart \/ \A i \in DOMAIN expr.rules : ~HasSpill(expr.rules[i], n - 1, ctx))

-----------------------------------------------------------------------------
(* OpeningHoursExpression::is_constant (rules/mod.rs): the *syntactic* test behind the      *)
(* iterator's "nothing ever changes" shortcut (next_change_hint returns 10000-01-01).       *)
(* Transcribed clause by clause; its soundness - whenever it answers TRUE every day is one  *)
(* period of the last rule's kind - is an invariant of MC_DayEval, and the flag the real     *)
(* code computes is compared with this operator on every recorded expression.               *)
DayEmpty(rule) == rule.year = <<>> /\ rule.monthday = <<>> /\ rule.week = <<>> /\ rule.weekday = <<>>
Is0024(rule) == /\ Len(rule.time) = 1
                /\ rule.time[1] = [s |-> [t |-> "fixed", m |-> 0], e |-> [t |-> "fixed", m |-> 1440],
                                   open_end |-> FALSE, repeats |-> -1]
RuleConstant(rule) == DayEmpty(rule) /\ Is0024(rule)
ConstantKind(expr) == IF expr.rules = <<>> THEN "closed" ELSE expr.rules[Len(expr.rules)].kind
IsConstant(expr) ==
  LET rs   == expr.rules
      kind == ConstantKind(expr)
      \* scanning from the end, the first rule that is not "<some days> 00:00-24:00 <kind>"
      stop == {i \in DOMAIN rs : DayEmpty(rs[i]) \/ ~Is0024(rs[i]) \/ rs[i].kind # kind}
  IN IF rs = <<>> THEN TRUE
     ELSE IF stop = {} THEN kind = "closed"
     ELSE LET t == CHOOSE i \in stop : \A j \in stop : j <= i
          IN /\ rs[t].op = "fallback" =>
                  \* the rules before an unconditional fallback must leave every day either entirely
                  \* closed or entirely of the fallback's kind
                  \/ \A j \in 1..(t - 1) : rs[j].kind = "closed"
                  \/ \A j \in 1..(t - 1) : Is0024(rs[j]) /\ rs[j].kind \in {"closed", kind}
             /\ rs[t].kind = kind
             /\ RuleConstant(rs[t])
\* what a constant expression must evaluate to on every day of the supported range
ConstantDay(expr, til) == \A i \in DOMAIN til : til[i].k = ConstantKind(expr)
=============================================================================
