-------------------------------- MODULE Display --------------------------------
(* The canonical printer of opening-hours-syntax (the Display implementations of          *)
(* rules/mod.rs, rules/day.rs, rules/time.rs, display.rs), as a function from the AST      *)
(* records (DESIGN.md appendix C) to strings. Used to compare the real `to_string()` of    *)
(* every generated sentence with the printer's specification (diagnostic for C06: tells    *)
(* which node kind is printed differently) - the verdict of C06 itself stays differential. *)
EXTENDS Integers, Sequences, TLC

P2(n) == IF n < 10 THEN "0" \o ToString(n) ELSE ToString(n)
Wd(i) == <<"Mo", "Tu", "We", "Th", "Fr", "Sa", "Su">>[i + 1]
Mon(m) == <<"Jan", "Feb", "Mar", "Apr", "May", "Jun", "Jul", "Aug", "Sep", "Oct", "Nov", "Dec">>[m]
RECURSIVE JoinD(_, _)
JoinD(q, sep) == IF q = <<>> THEN "" ELSE IF Len(q) = 1 THEN q[1] ELSE q[1] \o sep \o JoinD(Tail(q), sep)
Map(q, F(_)) == [i \in DOMAIN q |-> F(q[i])]

DaysOff(n) == IF n = 0 THEN "" ELSE " " \o (IF n > 0 THEN "+" \o ToString(n) ELSE "-" \o ToString(0 - n))
                                     \o " day" \o (IF n > 1 \/ n < -1 THEN "s" ELSE "")

DYear(r) == ToString(r.a) \o (IF r.a # r.b \/ r.step # 1 THEN "-" \o ToString(r.b) ELSE "")
            \o (IF r.step # 1 THEN "/" \o ToString(r.step) ELSE "")
DDate(dt) == (IF dt.year = -1 THEN "" ELSE ToString(dt.year) \o " ")
             \o (IF dt.t = "easter" THEN "easter" ELSE Mon(dt.month) \o " " \o ToString(dt.day))
DBound(b) == DDate(b.date)
             \o (IF b.wsign = 1 THEN "+" \o Wd(b.wday) ELSE IF b.wsign = -1 THEN "-" \o Wd(b.wday) ELSE "")
             \o DaysOff(b.days)
DMonthday(r) == IF r.t = "month"
                THEN (IF r.year = -1 THEN "" ELSE ToString(r.year)) \o Mon(r.a) \o (IF r.a # r.b THEN "-" \o Mon(r.b) ELSE "")
                ELSE DBound(r.s) \o (IF r.s # r.e THEN "-" \o DBound(r.e) ELSE "")
DWeek(r) == IF r.a = r.b /\ r.step = 1 THEN P2(r.a)
            ELSE P2(r.a) \o "-" \o P2(r.b) \o (IF r.step # 1 THEN "/" \o ToString(r.step) ELSE "")
NthList(r) == LET pos == SelectSeq(<<1, 2, 3, 4, 5>>, LAMBDA i : r.nth[i])
                  neg == SelectSeq(<<1, 2, 3, 4, 5>>, LAMBDA i : r.nthr[i])
              IN Map(pos, LAMBDA i : ToString(i)) \o Map(neg, LAMBDA i : "-" \o ToString(i))
AllSet(q) == \A i \in DOMAIN q : q[i]
DWeekday(r) == IF r.t = "holiday" THEN (IF r.kind = "public" THEN "PH" ELSE "SH") \o DaysOff(r.days)
               ELSE Wd(r.a) \o (IF r.a # r.b THEN "-" \o Wd(r.b) ELSE "")
                    \o (IF AllSet(r.nth) /\ AllSet(r.nthr) THEN "" ELSE "[" \o JoinD(NthList(r), ",") \o "]")
                    \o DaysOff(r.days)
DHM(m) == P2(m \div 60) \o ":" \o P2(m % 60)
DTime(t) == IF t.t = "fixed" THEN DHM(t.m)
            ELSE IF t.off = 0 THEN t.ev
            ELSE "(" \o t.ev \o (IF t.off > 0 THEN "+" \o DHM(t.off) ELSE "-" \o DHM(0 - t.off)) \o ")"
DSpan(sp) == DTime(sp.s)
             \o (IF ~sp.open_end \/ sp.e # [t |-> "fixed", m |-> 1440] THEN "-" \o DTime(sp.e) ELSE "")
             \o (IF sp.open_end THEN "+" ELSE "")
             \o (IF sp.repeats = -1 THEN ""
                 ELSE "/" \o (IF sp.repeats >= 60 THEN P2(sp.repeats \div 60) \o ":" ELSE "") \o P2(sp.repeats % 60))

FullDayD == <<[s |-> [t |-> "fixed", m |-> 0], e |-> [t |-> "fixed", m |-> 1440], open_end |-> FALSE, repeats |-> -1]>>
DDaySel(r) ==
  LET \* a single bare year in front of dates is printed `2024-2024`: `2024Jan-Oct,Dec` would be read as
      \* "Jan-Oct of 2024, Dec of any year" (the year belongs to the first date)
      y  == JoinD(Map(r.year, DYear), ",")
              \o (IF Len(r.year) = 1 /\ r.monthday # <<>> /\ r.year[1].a = r.year[1].b /\ r.year[1].step = 1
                  THEN "-" \o ToString(r.year[1].b) ELSE "")
      md == JoinD(Map(r.monthday, DMonthday), ",")
      wk == IF r.week = <<>> THEN "" ELSE (IF y # "" \/ md # "" THEN " " ELSE "") \o "week" \o JoinD(Map(r.week, DWeek), ",")
      wd == JoinD(Map(r.weekday, DWeekday), ",")
      wide == y \o md \o wk
  IN wide \o (IF wide # "" /\ wd # "" THEN " " ELSE "") \o wd
DRule(r) ==
  LET emptyDay == r.year = <<>> /\ r.monthday = <<>> /\ r.week = <<>> /\ r.weekday = <<>>
      full == r.time = FullDayD
      sel == IF emptyDay /\ full THEN "24/7"
             ELSE LET d == DDaySel(r)
                      t == IF full THEN "" ELSE JoinD(Map(r.time, DSpan), ",")
                  IN d \o (IF d # "" /\ t # "" THEN " " ELSE "") \o t
      kind == IF r.kind = "open" THEN "" ELSE r.kind
      cm == IF r.comments = <<>> THEN "" ELSE "\"" \o JoinD(r.comments, ", ") \o "\""
  IN sel \o (IF kind # "" /\ sel # "" THEN " " ELSE "") \o kind
         \o (IF cm # "" /\ (sel # "" \/ kind # "") THEN " " ELSE "") \o cm
RECURSIVE DRules(_, _)
DRules(rs, i) == IF i > Len(rs) THEN ""
                 ELSE (IF i = 1 THEN "" ELSE CASE rs[i].op = "normal" -> " ; " [] rs[i].op = "additional" -> ", " [] OTHER -> " || ")
                      \o DRule(rs[i]) \o DRules(rs, i + 1)
DisplayExpr(e) == IF e.rules = <<>> THEN "closed" ELSE DRules(e.rules, 1)
=============================================================================
