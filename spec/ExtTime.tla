------------------------------- MODULE ExtTime -------------------------------
(* ExtendedTime of opening-hours-syntax: an hour+minute value in 00:00 .. 48:00.      *)
(* Abstractly it is a minute counter in 0..2880; `None` (-1) stands for Rust's None.   *)
(* Every operator below mirrors one public function of extended_time.rs.               *)
EXTENDS Integers, Sequences, TLC

None   == -1
MaxMin == 2880                      \* 48:00
Times  == 0..MaxMin

\* ExtendedTime::new(hour, minute)
New(h, m) == IF h > 48 \/ m > 59 \/ (h = 48 /\ m > 0) THEN None ELSE 60 * h + m

Hour(t)   == t \div 60              \* .hour()
Minute(t) == t % 60                 \* .minute()
Mins(t)   == t                      \* .mins_from_midnight()

\* ExtendedTime::from_mins_from_midnight(n) for any u16
FromMins(n) == IF n \in Times THEN n ELSE None

\* .add_minutes(d) for any i16 and .add_hours(h) for any i8: integer addition, None iff the
\* result leaves 00:00..48:00
AddMinutes(t, d) == IF t + d \in Times THEN t + d ELSE None
AddHours(t, h)   == IF t + 60 * h \in Times THEN t + 60 * h ELSE None

\* Display: zero padded HH:MM
Pad2(n)  == IF n < 10 THEN "0" \o ToString(n) ELSE ToString(n)
Show(t)  == Pad2(Hour(t)) \o ":" \o Pad2(Minute(t))

\* TryInto<NaiveTime>: succeeds exactly below 24:00; value = seconds since midnight
ToClock(t) == IF t < 1440 THEN 60 * t ELSE None
\* From<NaiveTime>(h, m, s): seconds are dropped
FromClock(h, m, s) == 60 * h + m

\* Ord
Cmp(a, b) == IF a < b THEN -1 ELSE IF a > b THEN 1 ELSE 0

-----------------------------------------------------------------------------
(* Algebraic laws (checked by TLC as assumptions of MC_ExtTime).                       *)
LawInverse    == \A t \in Times : FromMins(Mins(t)) = t /\ New(Hour(t), Minute(t)) = t
LawNewRange   == \A h \in 0..60, m \in 0..70 :
                    /\ (New(h, m) # None) <=> (60 * h + m \in Times /\ m < 60)
                    /\ New(h, m) # None => Hour(New(h, m)) = h /\ Minute(New(h, m)) = m
LawAddInverse == \A t \in Times, d \in {-2881, -1441, -1440, -61, -60, -1, 0, 1, 59, 60, 61, 1440, 2880, 2881} :
                    AddMinutes(t, d) # None => AddMinutes(AddMinutes(t, d), -d) = t
LawHoursAreMinutes == \A t \in Times, h \in -49..49 : AddHours(t, h) = AddMinutes(t, 60 * h)
LawClock      == \A t \in Times : ToClock(t) # None =>
                    FromClock(Hour(t), Minute(t), 0) = t
=============================================================================
