------------------------------- MODULE Frames -------------------------------
(* normalize/frame.rs and normalize/canonical.rs: how the inclusive, possibly wrapping ranges of   *)
(* the year / month / week / weekday selectors become the half-open, increasing ranges the paving   *)
(* works on, and back. A dimension has values Lo..Hi; Hi + 1 is the virtual bound `Frame::End`.     *)
(*   to_range_strict        a..=b  ->  [a, b + 1)            (b = Hi gives End)                     *)
(*   split_inverted_range   [s, e) with s >= e  ->  [Lo, e), [s, End)                               *)
(*   to_range_inclusive     [s, e) ->  s..=e - 1                                                    *)
(*   into_selector          drops the range that covers the whole dimension                         *)
(* Theorems (MC_Frames, exhaustive over the four real dimensions): the pieces cover exactly the     *)
(* values of the wrapping-contains reading the evaluator uses for the range (Selectors.tla WrapIn), *)
(* they are proper and increasing, and the way back returns ranges with the same values.            *)
EXTENDS FramesCore, FiniteSets

\* try_from_iterator: all ranges of a selector, the whole dimension when there is none
RECURSIVE Flatten(_)
Flatten(q) == IF q = <<>> THEN <<>> ELSE q[1] \o Flatten(Tail(q))
SelectorPieces(ranges, Lo, Hi) ==
  IF ranges = <<>> THEN <<Rng(Lo, Hi + 1)>>
  ELSE Flatten([i \in DOMAIN ranges |-> Pieces(ranges[i].a, ranges[i].b, Lo, Hi)])
Inclusive(r) == [a |-> r.s, b |-> r.e - 1]
IntoSelector(pieces, Lo, Hi) ==
  LET kept == SelectSeq(pieces, LAMBDA r : r # Rng(Lo, Hi + 1))
  IN [i \in DOMAIN kept |-> Inclusive(kept[i])]

Cover(Lo, Hi) == \A a \in Lo..Hi, b \in Lo..Hi, x \in Lo..Hi : InPieces(Pieces(a, b, Lo, Hi), x) <=> WrapContains(a, b, x)
Proper(Lo, Hi) == \A a \in Lo..Hi, b \in Lo..Hi :
                    LET ps == Pieces(a, b, Lo, Hi)
                    IN /\ \A i \in DOMAIN ps : Lo <= ps[i].s /\ ps[i].s < ps[i].e /\ ps[i].e <= Hi + 1
                       /\ \A i \in 1..(Len(ps) - 1) : ps[i].e <= ps[i + 1].s
Back(Lo, Hi) == \A a \in Lo..Hi, b \in Lo..Hi :
                  LET back == IntoSelector(Pieces(a, b, Lo, Hi), Lo, Hi)
                  IN \A x \in Lo..Hi : (back = <<>> \/ \E i \in DOMAIN back : WrapContains(back[i].a, back[i].b, x)) <=> WrapContains(a, b, x)
=============================================================================
