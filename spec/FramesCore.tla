----------------------------- MODULE FramesCore -----------------------------
(* The non-recursive core of Frames.tla (ranges, strict conversion, wrapping split, membership):  *)
(* kept apart so that the TLA+ proof system, which does not accept RECURSIVE operators, can read  *)
(* it (FramesProofs.tla).                                                                          *)
EXTENDS Integers, Sequences

Rng(s, e) == [s |-> s, e |-> e]
Strict(a, b) == Rng(a, b + 1)
Split(r, Lo, Hi) == IF r.s >= r.e THEN <<Rng(Lo, r.e), Rng(r.s, Hi + 1)>> ELSE <<r>>
Pieces(a, b, Lo, Hi) == Split(Strict(a, b), Lo, Hi)
WrapContains(a, b, x) == IF a <= b THEN a <= x /\ x <= b ELSE x >= a \/ x <= b
InPieces(ps, x) == \E i \in DOMAIN ps : ps[i].s <= x /\ x < ps[i].e

=============================================================================
