SPECIFICATION Spec
CONSTANTS
  Universe <- U_Quick
  Queries <- Q_Quick
  Gen = TRUE
INVARIANTS Refines Emit
CHECK_DEADLOCK FALSE
