SPECIFICATION Spec
CONSTANTS
  Universe <- U_Thorough
  Queries <- Q_Thorough
  Gen = TRUE
INVARIANTS Refines Emit
CHECK_DEADLOCK FALSE
