------------------------------ MODULE Gen_Constant ------------------------------
(* Specification -> implementation for the iterator's "constant expression" shortcut.     *)
(* TLC walks every rule sequence of the bounded alphabet of MC_DayEval (PatternsConst: no  *)
(* day selector / Mondays / Tuesdays; whole day, morning, evening-wrapping spans; three    *)
(* kinds; three operators) and emits, printed with Display.tla, every sequence that is      *)
(* "constant-shaped": some rule is `24/7 <kind>`, or all rules have the same kind.           *)
(* These are the sequences on which is_constant can answer TRUE after a small change of    *)
(* its clauses. The harness streams each of them through the real iterator, state and      *)
(* next_change; Trace_Iter compares with the library's own daily schedules (C02, C03).     *)
EXTENDS MC_DayEval, Json

D == INSTANCE Display

\* every sequence in which some rule is `24/7 <kind>`, and every sequence whose rules all have the same kind: the sequences on
\* which a variation of any clause of is_constant (which rules are skipped from the end, what may precede a fallback) can
\* change its answer
Shaped == \/ \E i \in DOMAIN rs : RuleConstant(rs[i])
          \/ \A i \in DOMAIN rs : rs[i].kind = rs[1].kind
Emit == (Len(rs) >= 2 /\ Shaped) =>
           PrintT(<<"REPLAY", ToJson([src |-> D!DisplayExpr(Expr), constant |-> IsConstant(Expr),
                                      sound |-> (IsConstant(Expr) => ConstantDay(Expr, DayTiling(Expr, Today, NoCtx)))])>>)

(* Second family (Gen_RuleMix.cfg): sequences that combine a closed rule, a span passing midnight and - with three rules - a   *)
(* fallback rule, on Mondays / Tuesdays / both / Wednesdays. This is the zone where the day fold has most case analysis     *)
(* (replacement, overlay, spill of a rule not matching the day, fallback); the sentences go through the real normaliser      *)
(* (C07: same meaning before and after) and the real day evaluation (C01).                                                  *)
Wraps(r) == r.time[1].e.m <= r.time[1].s.m \/ r.time[1].e.m > 1440
Mixed == /\ Len(rs) >= 2
         /\ \E i \in DOMAIN rs : rs[i].kind = "closed"
         /\ \E i \in DOMAIN rs : rs[i].kind # "closed" /\ Wraps(rs[i])
         /\ (Len(rs) = 3 => \E i \in DOMAIN rs : rs[i].op = "fallback")
\* written without comments: the normaliser keeps a closed rule that carries a comment and drops one that does not
Bare == [rules |-> [i \in DOMAIN rs |-> [rs[i] EXCEPT !.comments = <<>>]]]
EmitMix == Mixed => PrintT(<<"REPLAY", ToJson([text |-> D!DisplayExpr(Bare), expect |-> "accept"])>>)
=============================================================================
