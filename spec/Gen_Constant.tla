------------------------------ MODULE Gen_Constant ------------------------------
(* Specification -> implementation for the iterator's "constant expression" shortcut.     *)
(* TLC walks every rule sequence of the bounded alphabet of MC_DayEval (PatternsConst: no  *)
(* day selector / Mondays / Tuesdays; whole day, morning, evening-wrapping spans; three    *)
(* kinds; three operators) and emits, printed with Display.tla, every sequence that is      *)
(* "constant-shaped": some rule is `24/7 <kind>` and all later rules cover whole days.      *)
(* These are the sequences on which is_constant can answer TRUE after a small change of    *)
(* its clauses. The harness streams each of them through the real iterator, state and      *)
(* next_change; Trace_Iter compares with the library's own daily schedules (C02, C03).     *)
EXTENDS MC_DayEval, Json

D == INSTANCE Display

Shaped == \E i \in DOMAIN rs : /\ RuleConstant(rs[i])
                               /\ \A j \in (i + 1)..Len(rs) : Is0024(rs[j])
Emit == (Len(rs) >= 2 /\ Shaped) =>
           PrintT(<<"REPLAY", ToJson([src |-> D!DisplayExpr(Expr), constant |-> IsConstant(Expr),
                                      sound |-> (IsConstant(Expr) => ConstantDay(Expr, DayTiling(Expr, Today, NoCtx)))])>>)
=============================================================================
