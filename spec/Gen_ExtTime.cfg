
