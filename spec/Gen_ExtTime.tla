----------------------------- MODULE Gen_ExtTime -----------------------------
(* Specification -> implementation: expected tables for every input of the finite      *)
(* domains named by C19. The harness replays every row through the real ExtendedTime.  *)
EXTENDS ExtTime, Json, IOUtils

\* boundary values for which the full i16 row of add_minutes is generated
FullRows == {0, 1, 59, 60, 61, 719, 1439, 1440, 1441, 2000, 2819, 2820, 2879, 2880}

Tables ==
  [ new        |-> [i \in 1..256 |-> [j \in 1..256 |-> New(i - 1, j - 1)]],
    from_mins  |-> [i \in 1..65536 |-> FromMins(i - 1)],
    add_hours  |-> [i \in 1..(MaxMin + 1) |-> [j \in 1..256 |-> AddHours(i - 1, j - 129)]],
    \* add_minutes(t, d) # None  <=>  lo <= d <= hi, and then the result is the integer sum
    add_minutes_valid |-> [i \in 1..(MaxMin + 1) |-> <<0 - (i - 1), MaxMin - (i - 1)>>],
    add_minutes_rows  |-> [t \in FullRows |-> [j \in 1..65536 |-> AddMinutes(t, j - 32769)]],
    show       |-> [i \in 1..(MaxMin + 1) |-> Show(i - 1)],
    to_clock   |-> [i \in 1..(MaxMin + 1) |-> ToClock(i - 1)],
    hour       |-> [i \in 1..(MaxMin + 1) |-> Hour(i - 1)],
    minute     |-> [i \in 1..(MaxMin + 1) |-> Minute(i - 1)] ]

ASSUME JsonSerialize(IOEnv.OUT, Tables)
=============================================================================
