
