------------------------------ MODULE Gen_Frames ------------------------------
(* Specification -> implementation for the canonical conversion (Frames.tla) composed with the      *)
(* paving (Normalize.tla), one real dimension at a time: for every pair of boundary values of the   *)
(* weekday / month / week / year dimension (plain, wrapping, whole-cycle ranges) TLC computes the   *)
(* normal form of `<range> 10:00-12:00` and of two such rules (second one unknown, `;` or `,`),     *)
(* prints source and normal form with Display.tla; the harness normalises the source with the real  *)
(* code and compares the strings.                                                                   *)
EXTENDS Frames, Normalize, Json, TLC, IOUtils, SequencesExt

D == INSTANCE Display

AllT == <<TRUE, TRUE, TRUE, TRUE, TRUE>>
TimeBounds == Rg(0, 1440)
Span(s, e) == [s |-> [t |-> "fixed", m |-> s], e |-> [t |-> "fixed", m |-> e], open_end |-> FALSE, repeats |-> -1]
\* dimension name -> bounds
Lo(dim) == CASE dim = "weekday" -> 0 [] dim = "month" -> 1 [] dim = "week" -> 1 [] OTHER -> 1900
Hi(dim) == CASE dim = "weekday" -> 6 [] dim = "month" -> 12 [] dim = "week" -> 53 [] OTHER -> 9999
Vals(dim) == CASE dim = "weekday" -> {0, 1, 3, 5, 6} [] dim = "month" -> {1, 2, 6, 11, 12}
               [] dim = "week" -> {1, 2, 26, 52, 53} [] OTHER -> {1900, 1901, 2020, 9998, 9999}

\* AST selector element of a dimension for the inclusive range a..=b
Elem(dim, a, b) == CASE dim = "weekday" -> [t |-> "fixed", a |-> a, b |-> b, days |-> 0, nth |-> AllT, nthr |-> AllT]
                     [] dim = "month" -> [t |-> "month", a |-> a, b |-> b, year |-> -1]
                     [] OTHER -> [a |-> a, b |-> b, step |-> 1]
AstRule(dim, op, kind, incl, times) ==
  LET q == [i \in DOMAIN incl |-> Elem(dim, incl[i].a, incl[i].b)]
  IN [op |-> op, kind |-> kind, comments |-> <<>>,
      year |-> IF dim = "year" THEN q ELSE <<>>, monthday |-> IF dim = "month" THEN q ELSE <<>>,
      week |-> IF dim = "week" THEN q ELSE <<>>, weekday |-> IF dim = "weekday" THEN q ELSE <<>>,
      time |-> [i \in DOMAIN times |-> Span(times[i].s, times[i].e)]]

\* a written rule: one inclusive range a..=b of the dimension, 10:00-12:00
Written(dim, op, kind, a, b) == [dim |-> dim, op |-> op, kind |-> kind, a |-> a, b |-> b]
ToAst(w) == AstRule(w.dim, w.op, w.kind, <<[a |-> w.a, b |-> w.b]>>, <<Rg(600, 720)>>)
ToCanon(w) == [op |-> w.op, kind |-> w.kind, c |-> {}, sel |-> <<<<Rg(600, 720)>>, Pieces(w.a, w.b, Lo(w.dim), Hi(w.dim))>>]
FromCanon(dim, r) == AstRule(dim, r.op, r.kind, IntoSelector(r.sel[2], Lo(dim), Hi(dim)), r.sel[1])

Source(ws) == D!DisplayExpr([rules |-> [i \in DOMAIN ws |-> ToAst(ws[i])]])
Normal(ws) == LET n == NormalizeRules([i \in DOMAIN ws |-> ToCanon(ws[i])], 2, TimeBounds, FALSE)
              IN D!DisplayExpr([rules |-> [i \in DOMAIN n |-> FromCanon(ws[1].dim, n[i])]])

Dims == {"weekday", "month", "week", "year"}
Singles == {<<Written(d, "normal", "open", a, b)>> : d \in {"weekday"}, a \in Vals("weekday"), b \in Vals("weekday")}
      \cup {<<Written(d, "normal", "open", a, b)>> : d \in {"month"}, a \in Vals("month"), b \in Vals("month")}
      \cup {<<Written(d, "normal", "open", a, b)>> : d \in {"week"}, a \in Vals("week"), b \in Vals("week")}
      \cup {<<Written(d, "normal", "open", a, b)>> : d \in {"year"}, a \in Vals("year"), b \in Vals("year")}
PairsOf(d) == {<<Written(d, "normal", "open", a, b), Written(d, op, "unknown", c, e)>> :
                  a \in Vals(d), b \in Vals(d), c \in Vals(d), e \in Vals(d), op \in {"normal", "additional"}}
Cases == Singles \cup PairsOf("weekday") \cup PairsOf("month") \cup PairsOf("week") \cup PairsOf("year")

Line(ws) == [text |-> Source(ws), normal |-> Normal(ws), dim |-> ws[1].dim]
ASSUME ndJsonSerialize(IOEnv.OUT, SetToSeq({Line(ws) : ws \in Cases}))
ASSUME PrintT(<<"COUNTS", Cardinality(Cases)>>)
=============================================================================
