
