------------------------------ MODULE Gen_Grammar ------------------------------
(* Bounded families of written expressions: every selector kind with every syntactic     *)
(* variant alone, pairs and triples of selector kinds in one rule, every modifier /       *)
(* comment combination, rule sequences up to 3 with every separator; each under every    *)
(* spelling variant of Grammar.tla. One JSON line per sentence: the text, the AST it     *)
(* denotes (appendix C format), and flags for the comparison. Single-field corruptions   *)
(* and the documented unsupported constructs are listed with the outcome "reject".       *)
EXTENDS Grammar, Display, Json, IOUtils, FiniteSets, SequencesExt

AllT == <<TRUE, TRUE, TRUE, TRUE, TRUE>>
NoneT == <<FALSE, FALSE, FALSE, FALSE, FALSE>>
Y(a, b, step, plus) == [a |-> a, b |-> b, step |-> step, plus |-> plus]
MoR(a, b, year) == [t |-> "month", a |-> a, b |-> b, year |-> year]
Dt(year, month, day) == [t |-> "fixed", year |-> year, month |-> month, day |-> day]
Ea(year) == [t |-> "easter", year |-> year]
Bd(date, wsign, wday, days) == [date |-> date, wsign |-> wsign, wday |-> wday, days |-> days]
B0(date) == Bd(date, 0, 0, 0)
DSingle(b) == [t |-> "date", form |-> "single", s |-> b, e |-> b]
DRange(b1, b2) == [t |-> "date", form |-> "range", s |-> b1, e |-> b2]
DPlus(b) == [t |-> "date", form |-> "plus", s |-> b,
             e |-> B0(Dt(IF b.date.year = -1 THEN -1 ELSE 9999, 12, 31))]
DDaynum(b1, b2) == [t |-> "date", form |-> "daynum", s |-> b1, e |-> b2]
Wk(a, b, step) == [a |-> a, b |-> b, step |-> step]
WdR(a, b, txt, nth, nthr, days) == [t |-> "fixed", a |-> a, b |-> b, nthtxt |-> txt, nth |-> nth, nthr |-> nthr, days |-> days]
WdP(a, b) == WdR(a, b, "", AllT, AllT, 0)
PH(days) == [t |-> "holiday", kind |-> "public", days |-> days]
SH == [t |-> "holiday", kind |-> "school", days |-> 0]
Fx(m) == [t |-> "fixed", m |-> m]
Ev(ev, off) == [t |-> "var", ev |-> ev, off |-> off]
Sp(s, e) == [s |-> s, e |-> e, form |-> "range", repeats |-> -1]
SpF(s, e, form, rep) == [s |-> s, e |-> e, form |-> form, repeats |-> rep]

W(op, year, monthday, week, weekday, time, kindword, comment) ==
  [op |-> op, always |-> FALSE, year |-> year, monthday |-> monthday, week |-> week, weekday |-> weekday,
   time |-> time, written_time |-> time # <<>>, kindword |-> kindword, comment |-> comment]
Always(op, kindword, comment) ==
  [op |-> op, always |-> TRUE, year |-> <<>>, monthday |-> <<>>, week |-> <<>>, weekday |-> <<>>,
   time |-> <<>>, written_time |-> FALSE, kindword |-> kindword, comment |-> comment]

\* --- atoms per dimension (each element is a selector = sequence of ranges) ------
YearSels == {<<Y(2030, 2030, 3, FALSE)>>, <<Y(2020, 2020, 1, FALSE)>>, <<Y(2020, 2022, 1, FALSE)>>, <<Y(2020, 2030, 2, FALSE)>>, <<Y(2020, 9999, 1, TRUE)>>,
             <<Y(1900, 1900, 1, FALSE)>>, <<Y(9999, 9999, 1, FALSE)>>, <<Y(2025, 2021, 1, FALSE)>>, <<Y(2020, 9999, 3, FALSE)>>,
             <<Y(2020, 2020, 1, FALSE), Y(2025, 2026, 1, FALSE)>>, <<Y(2019, 2021, 1, FALSE), Y(8000, 9000, 10, FALSE)>>}
MonthSels == {<<MoR(1, 1, -1)>>, <<MoR(11, 2, -1)>>, <<MoR(3, 3, 2021)>>, <<MoR(1, 3, 2025)>>, <<MoR(12, 12, 9999)>>,
              <<MoR(1, 1, -1), MoR(6, 8, -1)>>, <<MoR(5, 9, -1)>>}
DateSels ==
  {<<DSingle(B0(Dt(-1, 12, 25)))>>, <<DSingle(B0(Dt(-1, 1, 1)))>>, <<DSingle(B0(Dt(-1, 2, 29)))>>, <<DSingle(B0(Dt(2024, 2, 29)))>>,
   <<DSingle(B0(Dt(-1, 7, 9)))>>, <<DSingle(B0(Ea(-1)))>>, <<DSingle(B0(Ea(2025)))>>,
   <<DSingle(Bd(Ea(-1), 0, 0, -2))>>, <<DSingle(Bd(Ea(-1), 0, 0, 1))>>, <<DSingle(Bd(Dt(-1, 6, 7), 1, 1, 0))>>,
   <<DSingle(Bd(Dt(-1, 6, 7), -1, 6, 0))>>, <<DSingle(Bd(Dt(-1, 1, 1), 0, 0, 2))>>, <<DSingle(Bd(Dt(-1, 6, 7), 1, 1, 3))>>,
   <<DRange(B0(Dt(-1, 12, 25)), B0(Dt(-1, 1, 5)))>>, <<DRange(B0(Dt(-1, 3, 1)), B0(Dt(-1, 3, 31)))>>,
   <<DRange(B0(Dt(2021, 3, 28)), B0(Dt(-1, 4, 16)))>>, <<DRange(B0(Dt(2020, 12, 20)), B0(Dt(2021, 1, 10)))>>,
   <<DRange(B0(Ea(-1)), Bd(Ea(-1), 0, 0, 10))>>, <<DRange(Bd(Ea(-1), 0, 0, -2), B0(Dt(-1, 6, 1)))>>,
   <<DRange(Bd(Dt(-1, 5, 1), 1, 0, 0), Bd(Dt(-1, 9, 30), -1, 4, 0))>>,
   <<DRange(B0(Dt(-1, 1, 31)), B0(Dt(-1, 2, 29)))>>,
   \* whole months written as dates: the last day of February is not the same day every year
   <<DRange(B0(Dt(-1, 1, 1)), B0(Dt(-1, 2, 28)))>>, <<DRange(B0(Dt(-1, 2, 1)), B0(Dt(-1, 2, 29)))>>,
   <<DPlus(B0(Dt(-1, 9, 1)))>>, <<DPlus(B0(Dt(2019, 9, 1)))>>, <<DPlus(Bd(Dt(-1, 9, 1), 0, 0, 1))>>,
   <<DDaynum(B0(Dt(-1, 5, 15)), B0(Dt(-1, 5, 31)))>>, <<DDaynum(B0(Dt(-1, 5, 15)), B0(Dt(-1, 6, 1)))>>,
   <<DDaynum(B0(Dt(-1, 12, 28)), B0(Dt(-1, 1, 5)))>>, <<DDaynum(B0(Dt(2021, 12, 28)), B0(Dt(2022, 1, 5)))>>,
   <<DDaynum(B0(Dt(2021, 4, 10)), B0(Dt(2021, 4, 16)))>>,
   <<DSingle(B0(Dt(-1, 12, 25))), DRange(B0(Dt(-1, 7, 1)), B0(Dt(-1, 8, 15)))>>,
   <<MoR(1, 2, -1), DSingle(B0(Dt(-1, 12, 25)))>>}
\* boundary dates of the calendar x year anchoring: the end of February (leap day), the year boundary, written as single
\* dates and as ranges in both orders, with a year on no bound, on the start only, or on both
EdgeDays == {<<2, 28>>, <<2, 29>>, <<3, 1>>, <<12, 31>>, <<1, 1>>}
LeapFamily ==
  {<<DRange(B0(Dt(ys, a[1], a[2])), B0(Dt(ye, b[1], b[2])))>> :
      a \in EdgeDays, b \in EdgeDays, ys \in {-1, 2023, 2024}, ye \in {-1, 2024, 2025}}
  \ {<<DRange(B0(Dt(ys, a[1], a[2])), B0(Dt(ye, a[1], a[2])))>> : a \in EdgeDays, ys \in {-1, 2023, 2024}, ye \in {-1, 2024, 2025}}
\* bounds that their OFFSET carries over a boundary of the calendar: the end of the year, the end of February (an implementation
\* that decides from the written month / day alone which years a range touches goes wrong exactly here)
OffsetEdge ==
  {<<DRange(B0(Dt(ys, 12, 24)), Bd(Dt(ye, 12, 31), 0, 0, 2))>> : ys \in {-1, 2024}, ye \in {-1}}
  \cup {<<DRange(B0(Dt(2024, 12, 24)), Bd(Dt(2024, 12, 31), 0, 0, 2))>>,
        <<DRange(B0(Dt(-1, 12, 24)), Bd(Dt(-1, 12, 31), 1, 6, 0))>>, <<DRange(B0(Dt(-1, 12, 27)), Bd(Dt(-1, 12, 30), 1, 2, 0))>>,
        <<DRange(Bd(Dt(-1, 1, 1), 0, 0, -1), B0(Dt(-1, 1, 6)))>>, <<DRange(Bd(Dt(-1, 1, 2), 0, 0, -3), B0(Dt(-1, 1, 6)))>>,
        <<DRange(Bd(Dt(-1, 1, 3), -1, 0, 0), B0(Dt(-1, 1, 10)))>>, <<DRange(Bd(Dt(2025, 1, 1), 0, 0, -2), B0(Dt(2025, 1, 6)))>>,
        <<DRange(B0(Dt(-1, 2, 20)), Bd(Dt(-1, 2, 28), 0, 0, 2))>>, <<DRange(Bd(Dt(-1, 3, 1), 0, 0, -2), B0(Dt(-1, 3, 5)))>>,
        <<DSingle(Bd(Dt(-1, 12, 31), 0, 0, 1))>>, <<DSingle(Bd(Dt(-1, 1, 1), 0, 0, -1))>>, <<DSingle(Bd(Dt(-1, 12, 30), 1, 0, 0))>>,
        <<DSingle(Bd(Dt(2024, 12, 31), 0, 0, 1))>>, <<DSingle(Bd(Dt(-1, 2, 28), 0, 0, 1))>>, <<DSingle(Bd(Dt(-1, 3, 1), 0, 0, -1))>>}
\* (a range whose bounds are the same written date is a single date in the AST: excluded; a year on the end bound only is kept
\*  for the parser and for totality, its meaning is left open)

WeekSels == {<<Wk(1, 1, 1)>>, <<Wk(53, 53, 1)>>, <<Wk(1, 10, 1)>>, <<Wk(1, 53, 2)>>, <<Wk(50, 3, 1)>>, <<Wk(4, 4, 1), Wk(10, 20, 3)>>, <<Wk(9, 9, 1)>>}
WeekdaySels ==
  {<<WdP(0, 0)>>, <<WdP(0, 4)>>, <<WdP(5, 1)>>, <<WdP(6, 6)>>, <<WdP(0, 0), WdP(2, 4)>>,
   <<WdR(0, 0, "1", <<TRUE, FALSE, FALSE, FALSE, FALSE>>, NoneT, 0)>>,
   <<WdR(4, 4, "-1", NoneT, <<TRUE, FALSE, FALSE, FALSE, FALSE>>, 0)>>,
   <<WdR(6, 6, "1,3", <<TRUE, FALSE, TRUE, FALSE, FALSE>>, NoneT, 0)>>,
   <<WdR(1, 1, "2-4", <<FALSE, TRUE, TRUE, TRUE, FALSE>>, NoneT, 0)>>,
   <<WdR(2, 2, "5,-2", <<FALSE, FALSE, FALSE, FALSE, TRUE>>, <<FALSE, TRUE, FALSE, FALSE, FALSE>>, 0)>>,
   <<WdR(0, 0, "1", <<TRUE, FALSE, FALSE, FALSE, FALSE>>, NoneT, 1)>>,
   <<WdR(3, 3, "-1", NoneT, <<TRUE, FALSE, FALSE, FALSE, FALSE>>, -2)>>,
   <<WdR(5, 5, "1-5", AllT, NoneT, 0)>>,
   <<PH(0)>>, <<SH>>, <<PH(1)>>, <<PH(-1)>>, <<PH(0), SH>>, <<WdP(0, 4), PH(0)>>, <<PH(0), WdP(5, 6)>>, <<SH, WdP(0, 0), WdP(3, 3)>>}
TimeSels ==
  {<<Sp(Fx(600), Fx(720))>>, <<Sp(Fx(0), Fx(1440))>>, <<Sp(Fx(540), Fx(1440))>>, <<Sp(Fx(1320), Fx(120))>>, <<Sp(Fx(480), Fx(1560))>>,
   <<Sp(Fx(545), Fx(1005))>>, <<Sp(Fx(1440), Fx(1500))>>, <<Sp(Fx(60), Fx(2880))>>, <<Sp(Fx(600), Fx(600))>>,
   \* several spans in one rule: nested, overlapping, touching, and one passing midnight over a span of the small hours
   <<Sp(Fx(600), Fx(1200)), Sp(Fx(720), Fx(840))>>, <<Sp(Fx(600), Fx(840)), Sp(Fx(720), Fx(1080))>>, <<Sp(Fx(600), Fx(720)), Sp(Fx(720), Fx(840))>>,
   <<Sp(Fx(1320), Fx(120)), Sp(Fx(60), Fx(180))>>, <<Sp(Fx(720), Fx(840)), Sp(Fx(600), Fx(1200)), Sp(Fx(1140), Fx(1260))>>,
   <<Sp(Fx(480), Fx(720)), Sp(Fx(840), Fx(1080))>>, <<Sp(Fx(480), Fx(720)), Sp(Fx(840), Fx(1080)), Sp(Fx(1200), Fx(1320))>>,
   <<Sp(Ev("sunrise", 0), Ev("sunset", 0))>>, <<Sp(Ev("dawn", 0), Fx(720))>>, <<Sp(Fx(720), Ev("dusk", 0))>>,
   <<Sp(Ev("sunrise", 60), Ev("sunset", -30))>>, <<Sp(Ev("dusk", -90), Fx(1500))>>,
   <<SpF(Fx(600), Fx(1440), "plus", -1)>>, <<SpF(Fx(600), Fx(720), "rangeplus", -1)>>, <<SpF(Ev("sunset", 0), Fx(1440), "plus", -1)>>,
   <<SpF(Fx(600), Fx(960), "repeat", 30)>>, <<SpF(Fx(600), Fx(960), "repeat", 45)>>, <<SpF(Fx(600), Fx(960), "repeat_hm", 90)>>,
   <<SpF(Fx(480), Fx(1080), "repeat_hm", 120)>>, <<SpF(Fx(600), Fx(960), "repeat_hm", 45)>>, <<SpF(Fx(0), Fx(1440), "repeat_hm", 601)>>,
   \* "24:00" is a production of its own in hour_minutes (matched as a whole): it is written wherever hour_minutes is referenced -
   \* as a repetition interval (R23: parsing it panicked) and as the offset of a sun event
   <<SpF(Fx(600), Fx(960), "repeat_hm", 1440)>>, <<Sp(Ev("dawn", 1440), Fx(1500))>>, <<Sp(Fx(600), Fx(720)), SpF(Fx(840), Fx(1440), "plus", -1)>>}
KindWords == {"", "open", "closed", "unknown"}
Comments == {"", "on appointment"}

\* --- rules -----------------------------------------------------------------------
Alone == {W("normal", y, <<>>, <<>>, <<>>, <<>>, "", "") : y \in YearSels}
     \cup {W("normal", <<>>, m, <<>>, <<>>, <<>>, "", "") : m \in MonthSels \cup DateSels}
     \cup {W("normal", <<>>, <<>>, k, <<>>, <<>>, "", "") : k \in WeekSels}
     \cup {W("normal", <<>>, <<>>, <<>>, d, <<>>, "", "") : d \in WeekdaySels}
     \cup {W("normal", <<>>, <<>>, <<>>, <<>>, t, "", "") : t \in TimeSels}
     \cup {Always("normal", "", "")}
T1 == <<Sp(Fx(600), Fx(720))>>
T2 == <<Sp(Fx(1320), Fx(120))>>
D1 == <<WdP(0, 4)>>
\* a single year directly followed by a month selector would denote a month with year: ShowWide writes such a
\* year selector as the range 2024-2024 (the only spelling of that AST)
YearsForCombos == {<<Y(2020, 2022, 1, FALSE)>>, <<Y(2020, 9999, 1, TRUE)>>, <<Y(2020, 2030, 2, FALSE)>>,
                   <<Y(2024, 2024, 1, FALSE)>>, <<Y(2020, 2020, 1, FALSE), Y(2025, 2026, 1, FALSE)>>}
\* year selector x dates whose meaning depends on which of the two the year belongs to
YearDates == {W("normal", y, m, <<>>, d, <<>>, "", "") :
                y \in {<<Y(2024, 2024, 1, FALSE)>>, <<Y(9999, 9999, 1, FALSE)>>, <<Y(2020, 2020, 1, FALSE), Y(2024, 2024, 1, FALSE)>>},
                m \in {<<MoR(1, 10, -1), MoR(12, 12, -1)>>, <<DRange(B0(Dt(-1, 12, 25)), B0(Dt(-1, 1, 5)))>>,
                       <<DSingle(B0(Ea(-1))), MoR(6, 6, -1)>>, <<DSingle(B0(Dt(2025, 1, 1)))>>, <<MoR(3, 3, 2021), MoR(5, 5, -1)>>,
                       <<DPlus(B0(Dt(-1, 9, 1)))>>},
                d \in {<<>>, D1}}
Pairs == {W("normal", <<>>, <<>>, <<>>, d, t, "", "") : d \in WeekdaySels, t \in {T1, T2, <<Sp(Ev("sunrise", 0), Ev("sunset", 0))>>}}
    \* a span whose two bounds are the same time lasts 24 hours from there: on the days of a selector it is not the whole day
    \cup {W("normal", <<>>, <<>>, <<>>, d, <<Sp(Fx(600), Fx(600))>>, "", "") : d \in {D1, <<WdP(0, 0)>>, <<WdP(5, 1)>>}}
    \cup {W("normal", <<>>, m, <<>>, <<>>, t, "", "") : m \in MonthSels \cup DateSels, t \in {T1, T2}}
    \cup {W("normal", <<>>, m, <<>>, D1, <<>>, "", "") : m \in MonthSels \cup DateSels}
    \cup {W("normal", y, <<>>, <<>>, d, <<>>, "", "") : y \in YearSels, d \in {D1, <<PH(0)>>}}
    \cup {W("normal", y, <<>>, <<>>, <<>>, T1, "", "") : y \in YearSels}
    \cup {W("normal", y, m, <<>>, <<>>, <<>>, "", "") : y \in YearsForCombos, m \in {<<MoR(1, 3, -1)>>, <<DSingle(B0(Dt(-1, 12, 25)))>>}}
    \cup {W("normal", <<>>, <<>>, k, d, <<>>, "", "") : k \in WeekSels, d \in {D1}}
    \cup {W("normal", <<>>, <<>>, k, <<>>, T1, "", "") : k \in WeekSels}
    \cup {W("normal", y, <<>>, k, <<>>, <<>>, "", "") : y \in YearsForCombos, k \in {<<Wk(1, 10, 1)>>}}
    \cup {W("normal", <<>>, m, k, <<>>, <<>>, "", "") : m \in {<<MoR(1, 3, -1)>>, <<DRange(B0(Dt(-1, 3, 1)), B0(Dt(-1, 3, 31)))>>}, k \in {<<Wk(1, 10, 1)>>}}
Triples == {W("normal", y, m, k, d, t, "", "") :
               y \in {<<>>, <<Y(2020, 2022, 1, FALSE)>>}, m \in {<<>>, <<MoR(1, 3, -1)>>, <<DRange(B0(Dt(-1, 12, 25)), B0(Dt(-1, 1, 5)))>>},
               k \in {<<>>, <<Wk(1, 10, 1)>>}, d \in {<<>>, D1, <<PH(0)>>}, t \in {<<>>, T1}}
           \ {W("normal", <<>>, <<>>, <<>>, <<>>, <<>>, "", "")}
Modified == {[w EXCEPT !.kindword = kw, !.comment = c] :
               w \in {W("normal", <<>>, <<>>, <<>>, D1, T1, "", ""), W("normal", <<>>, <<MoR(1, 1, -1)>>, <<>>, <<>>, <<>>, "", ""),
                      W("normal", <<>>, <<>>, <<>>, <<>>, T1, "", ""), W("normal", <<>>, <<>>, <<>>, <<PH(0)>>, <<>>, "", ""),
                      Always("normal", "", ""), W("normal", <<>>, <<>>, <<>>, <<>>, <<>>, "", "")},
               kw \in KindWords, c \in Comments}
            \ {W("normal", <<>>, <<>>, <<>>, <<>>, <<>>, "", "")}
\* both comment positions of a rule: in front of the selectors and after the modifier
WithLead(w, lead, first) == w @@ [lead |-> lead, leadFirst |-> first]
Leads == {WithLead([W("normal", <<>>, <<>>, <<>>, d, t, kw, "") EXCEPT !.comment = cm.c], "by appointment", cm.first) :
             d \in {D1, <<>>}, t \in {T1, <<>>}, kw \in {"", "open", "unknown", "closed"},
             cm \in {[c |-> "", first |-> TRUE], [c |-> "ring the bell", first |-> TRUE], [c |-> "a", first |-> FALSE],
                     [c |-> "by appointment", first |-> TRUE]}}
         \ {w \in {WithLead(W("normal", <<>>, <<>>, <<>>, <<>>, <<>>, kw, ""), "by appointment", TRUE) : kw \in {"", "open", "unknown", "closed"}} : TRUE}
Edge == {W("normal", <<>>, m, <<>>, <<>>, <<>>, "", "") : m \in LeapFamily \cup OffsetEdge}
SingleRules == Alone \cup Pairs \cup Triples \cup Modified \cup YearDates \cup {w \in Leads : w.weekday # <<>> \/ w.written_time}

Base == {W("normal", <<>>, <<>>, <<>>, D1, T1, "", ""),
         W("normal", <<>>, <<>>, <<>>, <<PH(0)>>, <<>>, "closed", ""),
         W("normal", <<>>, <<DRange(B0(Dt(2021, 3, 28)), B0(Dt(-1, 4, 16)))>>, <<>>, <<>>, <<>>, "closed", "x"),
         W("normal", <<>>, <<>>, <<>>, <<>>, <<Sp(Fx(840), Fx(1080))>>, "unknown", ""),
         Always("normal", "", "")}
Seqs2 == {<<a, [b EXCEPT !.op = op]>> : a \in Base, b \in Base, op \in {"normal", "additional", "fallback"}}
Seqs3 == {<<a, [b EXCEPT !.op = op1], [c EXCEPT !.op = op2]>> :
            a \in Base, b \in Base, c \in Base, op1 \in {"normal", "additional", "fallback"}, op2 \in {"normal", "additional", "fallback"}}

\* a rule that ends with its dates (whole day: no time written) followed by an additional rule starting with a date:
\* the comma + space must be read as the rule separator, never as the continuation of the list of dates
DatesOnly == {W("normal", <<>>, <<DRange(B0(Dt(-1, 4, 1)), B0(Ea(-1)))>>, <<>>, <<>>, <<>>, "", ""),
              W("normal", <<>>, <<MoR(1, 1, -1)>>, <<>>, <<>>, <<>>, "", ""),
              W("normal", <<Y(2020, 2022, 1, FALSE)>>, <<>>, <<>>, <<>>, <<>>, "", ""),
              W("normal", <<>>, <<>>, <<Wk(1, 10, 1)>>, <<>>, <<>>, "", ""),
              W("normal", <<>>, <<>>, <<>>, <<WdP(5, 5)>>, <<>>, "", ""),
              W("normal", <<>>, <<>>, <<>>, <<PH(0)>>, <<>>, "", ""),
              W("normal", <<>>, <<MoR(6, 6, -1)>>, <<>>, <<WdP(0, 4)>>, <<Sp(Fx(0), Fx(1440))>>, "", ""),
              \* the same with the whole day written out: the printer drops `00:00-24:00`, the parser must still see two rules
              W("normal", <<>>, <<DRange(B0(Dt(-1, 4, 1)), B0(Ea(-1)))>>, <<>>, <<>>, <<Sp(Fx(0), Fx(1440))>>, "", ""),
              W("normal", <<>>, <<MoR(1, 1, -1)>>, <<>>, <<>>, <<Sp(Fx(0), Fx(1440))>>, "", ""),
              W("normal", <<>>, <<DSingle(B0(Dt(-1, 12, 25)))>>, <<>>, <<>>, <<Sp(Fx(0), Fx(1440))>>, "", "")}
StartsWithDate == {W("additional", <<>>, <<DSingle(B0(Ea(-1)))>>, <<>>, <<>>, T1, "", ""),
                   W("additional", <<>>, <<DSingle(Bd(Ea(-1), 0, 0, 1))>>, <<>>, <<>>, <<>>, "", ""),
                   W("additional", <<>>, <<DSingle(B0(Ea(2025)))>>, <<>>, <<>>, <<>>, "unknown", ""),
                   W("additional", <<>>, <<MoR(6, 8, -1)>>, <<>>, <<>>, T1, "", ""),
                   W("additional", <<Y(2030, 2030, 1, FALSE)>>, <<>>, <<>>, <<>>, <<>>, "", ""),
                   W("additional", <<>>, <<>>, <<Wk(20, 20, 1)>>, <<>>, <<>>, "", ""),
                   W("additional", <<>>, <<>>, <<>>, <<WdP(6, 6)>>, T1, "", ""),
                   W("additional", <<>>, <<>>, <<>>, <<WdR(2, 2, "1", <<TRUE, FALSE, FALSE, FALSE, FALSE>>, NoneT, 0)>>, T1, "unknown", ""),
                   W("additional", <<>>, <<>>, <<>>, <<PH(0)>>, <<>>, "closed", ""),
                   W("additional", <<>>, <<>>, <<>>, <<>>, T1, "", "")}
AfterDates == {<<a, b>> : a \in DatesOnly, b \in StartsWithDate}

\* written day and denoted day differ: a day-number end bound wrapping past the last supported year ends with that year
Special ==
  {[text |-> "9999 Dec 22-21 10:00-12:00",
    ast |-> DenExpr(<<W("normal", <<>>, <<DRange(B0(Dt(9999, 12, 22)), B0(Dt(9999, 12, 31)))>>, <<>>, <<>>, T1, "", "")>>),
    expect |-> "accept", family |-> "edge",
    display |-> DisplayExpr(DenExpr(<<W("normal", <<>>, <<DRange(B0(Dt(9999, 12, 22)), B0(Dt(9999, 12, 31)))>>, <<>>, <<>>, T1, "", "")>>)),
    comment_only |-> <<FALSE>>],
   [text |-> "9998 Dec 22-21 10:00-12:00",
    ast |-> DenExpr(<<W("normal", <<>>, <<DRange(B0(Dt(9998, 12, 22)), B0(Dt(9999, 1, 21)))>>, <<>>, <<>>, T1, "", "")>>),
    expect |-> "accept", family |-> "edge",
    display |-> DisplayExpr(DenExpr(<<W("normal", <<>>, <<DRange(B0(Dt(9998, 12, 22)), B0(Dt(9999, 1, 21)))>>, <<>>, <<>>, T1, "", "")>>)),
    comment_only |-> <<FALSE>>]}

\* the kind of a rule made of a comment only is left open (OSM: unknown; the repository pins open)
CommentOnly(w) == ~w.always /\ w.year = <<>> /\ w.monthday = <<>> /\ w.week = <<>> /\ w.weekday = <<>> /\ ~w.written_time
                  /\ w.kindword = "" /\ w.comment # ""
Case(ws, v) == [text |-> ShowExpr(ws, v), ast |-> DenExpr(ws), expect |-> "accept", family |-> "general",
                display |-> DisplayExpr(DenExpr(ws)),      \* what the library's printer must give for this AST (Display.tla)
                comment_only |-> [i \in DOMAIN ws |-> CommentOnly(ws[i])]]

SmallVariants == {Canonical, [Canonical EXCEPT !.semi = ";"], [Canonical EXCEPT !.closed = "off"]}
Accepted == {Case(<<w>>, v) : w \in SingleRules, v \in Variants}
       \cup {[Case(<<w>>, Canonical) EXCEPT !.family = "edge"] : w \in Edge}
       \cup {Case(ws, v) : ws \in Seqs2, v \in SmallVariants}
       \cup {Case(ws, Canonical) : ws \in Seqs3}
       \cup {Case(ws, v) : ws \in AfterDates, v \in SmallVariants}
       \cup Special

\* --- single-field corruptions and unsupported constructs -----------------------------
Rejected == {"", " ", "25:00-26:00", "24:01-25:00", "10:60-12:00", "10:00-12:60", "10:00-49:00", "10:00-48:01", "Jan 0", "Jan 00",
             "Jan 32", "Jan 1-32", "week 0", "week 00", "week 54", "week 1-54", "week 1-10/0", "Mo[0]", "Mo[6]", "Mo[1-6]", "Mo[-6]",
             "1899", "10000", "1899-2000", "2020-10000", "2020-2030/0", "2020-2030/00", "\"unbalanced", "Mo \"unbalanced",
             "unbalanced\"", "10:00", "Mo 10:00", "easter-15", "2020 easter-15", "Mo-", "Mo-Xx", "Jax", "10:00-", "-12:00",
             "Mo 10:00-12:00 ;", "; Mo", "Mo || ", "Mo,, Tu", "PH +0 day", "SH +1 day", "Mo +1 day", "24/7 24/7", "week", "Mo[]", "Mo[1,]",
             "(sunrise+25:00)-12:00", "(sunrise+1)-12:00", "sunrise+01:00-12:00", "Jan 1 +1 days -", "open closed", "Mo off off"}
RejectCases == {[text |-> s, expect |-> "reject"] : s \in Rejected}

\* the generator itself is unambiguous: one sentence never stands for two different ASTs
Unambiguous == Cardinality({c.text : c \in Accepted}) = Cardinality({<<c.text, c.ast>> : c \in Accepted})
NoOverlap == {c.text : c \in Accepted} \cap Rejected = {}
ASSUME Unambiguous /\ NoOverlap
ASSUME ndJsonSerialize(IOEnv.OUT, SetToSeq(Accepted) \o SetToSeq(RejectCases))
ASSUME PrintT(<<"COUNTS", Cardinality(SingleRules), Cardinality(Accepted), Cardinality(RejectCases)>>)
=============================================================================
