SPECIFICATION Spec
CONSTANTS
  MaxRules = 2
  Ops <- AllOps
  KindsC <- AllKinds
  CommentSets <- CS2
  TimeRanges <- TR
  DayRanges <- DR
  Gen = TRUE
  Coded = FALSE
INVARIANTS SameMeaning EmitLine
CHECK_DEADLOCK FALSE
