
