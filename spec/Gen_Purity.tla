------------------------------- MODULE Gen_Purity -------------------------------
(* Schedule skeletons for C18: which thread performs which calls (in program order) in a  *)
(* fresh process. Every thread starts with a call that forces lazily initialised tables,  *)
(* so that the first uses race: all ordered pairs of two-call programs over the menu for  *)
(* two threads, every triple of single initialising calls for three threads, and a few    *)
(* wide ones.                                                                             *)
EXTENDS Sequences, Json, IOUtils, SequencesExt, FiniteSets, TLC

InitCalls == {"holidays_fr", "holidays_us", "country_from_coords", "tz_from_coords", "ctx_from_coords", "easter"}
Calls == InitCalls \cup {"plain_shared", "plain_clone", "normalize", "clone_ctx_switch", "clone_locale_switch", "interleave_exprs", "shared_walk", "coords_two_zones", "calendar_rebuild"}
Prog2 == {<<a, b>> : a \in InitCalls, b \in Calls}
Two   == {<<p, q>> : p \in Prog2, q \in Prog2}
Three == {<<<<a>>, <<b>>, <<c>>>> : a \in InitCalls, b \in InitCalls, c \in InitCalls}
Wide  == {<<<<"ctx_from_coords", "plain_shared">>, <<"ctx_from_coords", "plain_clone">>, <<"holidays_fr", "normalize">>,
            <<"tz_from_coords", "easter">>, <<"country_from_coords", "holidays_us">>, <<"easter", "ctx_from_coords">>,
            <<"plain_shared", "holidays_fr">>, <<"plain_clone", "tz_from_coords">>>>}
\* many threads making the same first use at once (a table published before it is complete shows here)
Crowd == {[i \in 1..12 |-> <<c>>] : c \in InitCalls} \cup {[i \in 1..12 |-> <<c, "clone_ctx_switch">>] : c \in {"holidays_us", "holidays_fr"}}
         \* twelve threads walking clones of the one shared value, alone and after a first use of a lazily built table
         \cup {[i \in 1..12 |-> <<"shared_walk">>], [i \in 1..12 |-> <<"easter", "shared_walk", "clone_locale_switch">>],
               [i \in 1..8 |-> <<"shared_walk", "plain_shared">>]}
ASSUME ndJsonSerialize(IOEnv.OUT, SetToSeq(Two \cup Three \cup Wide \cup Crowd))
ASSUME PrintT(<<"COUNTS", Cardinality(Two), Cardinality(Three), Cardinality(Wide), Cardinality(Crowd)>>)
=============================================================================
