
