------------------------------ MODULE Gen_PyBinding ------------------------------
(* Enumerates the complete constructor argument space with the outcome PyBinding.tla      *)
(* defines; the Python driver executes every case on the real extension and `ohv core`    *)
(* evaluates the Rust context the specification names.                                     *)
EXTENDS PyBinding, Json, IOUtils, SequencesExt, TLC

ASSUME Total /\ ExplicitZoneWins /\ ExplicitCountryWins

Tzs == {"none", "Europe/Paris", "America/New_York"}
Countries == {<<"none", "none">>, <<"FR", "valid">>, <<"US", "valid">>, <<"fr", "invalid">>, <<"XX", "invalid">>, <<"FRA", "invalid">>}
Coords == {<<"none", "none">>, <<"paris", "valid">>, <<"tokyo", "valid">>, <<"ocean", "valid">>, <<"pole", "valid">>,
           <<"antimeridian", "valid">>, <<"invalid_lat", "invalid">>, <<"invalid_nan", "invalid">>}
Flags == {"omitted", "none", "true", "false"}
Exprs == {<<"Mo-Fr 09:00-18:00 ; PH off \"ph\"", TRUE>>, <<"sunrise-sunset ; Su unknown", TRUE>>, <<"24/7", TRUE>>,
          <<"2099Mo-Su 12:30-17:00", TRUE>>, <<"10:00-12:00/30", TRUE>>,
          \* changes of state at wall-clock times that clocks skip (02:00-03:00 on the last Sunday of March in Paris, on the second
          \* Sunday of March in New York) or repeat: a returned datetime then falls into the gap / fold of the zone it is given in
          <<"02:30-05:00 ; Su 01:30-02:15,02:45-06:00", TRUE>>, <<"not an expression", FALSE>>, <<"Mo[6]", FALSE>>}

\* the full table for the first expression, a reduced one (flags omitted / false) for the others
Combos ==
  {[tz |-> tz, country |-> co[1], country_valid |-> co[2], coords |-> cd[1], coords_valid |-> cd[2],
    auto_country |-> ac, auto_timezone |-> at, expr |-> ex[1], expr_valid |-> ex[2]] :
     tz \in Tzs, co \in Countries, cd \in Coords, ac \in Flags, at \in Flags, ex \in Exprs}
Selected == {c \in Combos :
               \/ c.expr = "Mo-Fr 09:00-18:00 ; PH off \"ph\""
               \/ (c.auto_country \in {"omitted", "false"} /\ c.auto_timezone \in {"omitted", "false"}
                   /\ c.country \in {"none", "FR", "XX"} /\ c.coords \in {"none", "paris", "ocean", "invalid_lat"})}

Row(c) == [tz |-> c.tz, country |-> c.country, coords |-> c.coords, auto_country |-> c.auto_country, auto_timezone |-> c.auto_timezone,
           expr |-> c.expr, expr_valid |-> c.expr_valid,
           outcome |-> Outcome(c), holidays |-> Holidays(c), locale |-> Locale(c)]

ASSUME ndJsonSerialize(IOEnv.OUT, SetToSeq({Row(c) : c \in Selected}))
ASSUME PrintT(<<"COUNTS", Cardinality(Combos), Cardinality(Selected)>>)
=============================================================================
