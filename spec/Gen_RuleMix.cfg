SPECIFICATION Spec
CONSTANTS
  MaxRules = 3
  Ops <- AllOps
  DayPatterns <- PatternsStd
  WrongBase = FALSE
  SpanShapes = {3, 4, 5, 6}
INVARIANTS EmitMix
CHECK_DEADLOCK FALSE
