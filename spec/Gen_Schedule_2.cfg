SPECIFICATION Spec
CONSTANTS
  Grid <- G2
  OperandCSets <- CS3
  MaxList = 3
  Inductive = FALSE
  Coded = FALSE
  Gen = TRUE
INVARIANTS RepresentationOk CoalescedOk LawsHold TilingOk TilingComments
VIEW View
CHECK_DEADLOCK FALSE
