SPECIFICATION Spec
CONSTANTS
  Grid <- G3
  OperandCSets <- CS2
  MaxList = 3
  Inductive = FALSE
  Coded = FALSE
  Gen = TRUE
INVARIANTS RepresentationOk CoalescedOk LawsHold TilingOk TilingComments
VIEW View
CHECK_DEADLOCK FALSE
