SPECIFICATION GSpec
CONSTANTS
  Exprs = {1, 2, 3}
  Ctxs = {0, 1, 2, 3, 4, 5, 6}
  DefaultCtx = 0
  Handles = {1, 2, 3}
  Iters = {1, 2}
  Windows = {1, 2}
  MaxHeap = 9
  MaxPos = 6
  InPlace = FALSE
  Depth = 16
INVARIANTS Emit
CHECK_DEADLOCK FALSE
