
