---------------------------- MODULE Gen_SortedVec ----------------------------
(* Expected results for the exhaustive domains of C20; sets are indexed by bit mask.    *)
EXTENDS SortedVec, Json, IOUtils

SetOfMask(m, n) == {i \in 0..(n - 1) : (m \div (2 ^ i)) % 2 = 1}

\* all vectors over 0..3 of length <= 6 with the expected From result
FromCases == {<<v, FromVec(v)>> : v \in UNION {[1..n -> 0..3] : n \in 0..6}}

Tables ==
  [ from_vec |-> FromCases,
    \* union of all pairs of subsets of 0..5 (mask a + 1, mask b + 1), by the transcribed algorithm
    union    |-> [a \in 1..64 |-> [b \in 1..64 |->
                    Union(FromSet(SetOfMask(a - 1, 6)), FromSet(SetOfMask(b - 1, 6)))]],
    branch   |-> [a \in 1..64 |-> [b \in 1..64 |->
                    Branch(FromSet(SetOfMask(a - 1, 6)), FromSet(SetOfMask(b - 1, 6)))]],
    contains |-> [a \in 1..64 |-> [e \in 1..8 |-> Member(FromSet(SetOfMask(a - 1, 6)), e - 2)]],
    first_following |-> [a \in 1..64 |-> [e \in 1..8 |-> FirstFollowing(FromSet(SetOfMask(a - 1, 6)), e - 2)]] ]

ASSUME JsonSerialize(IOEnv.OUT, Tables)
=============================================================================
