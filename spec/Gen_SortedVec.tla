---------------------------- MODULE Gen_SortedVec ----------------------------
(* Expected results for the exhaustive domains of C20; sets are indexed by bit mask.    *)
EXTENDS SortedVec, Json, IOUtils

SetOfMask(m, n) == {i \in 0..(n - 1) : (m \div (2 ^ i)) % 2 = 1}

\* all vectors over 0..3 of length <= 6 with the expected From result
FromCases == {<<v, FromVec(v)>> : v \in UNION {[1..n -> 0..3] : n \in 0..6}}

Tables ==
  [ from_vec |-> FromCases,
    \* union of all pairs of subsets of 0..5 (mask a + 1, mask b + 1), by the transcribed algorithm
    union    |-> [a \in 1..64 |-> [b \in 1..64 |->
                    Union(FromSet(SetOfMask(a - 1, 6)), FromSet(SetOfMask(b - 1, 6)))]],
    branch   |-> [a \in 1..64 |-> [b \in 1..64 |->
                    Branch(FromSet(SetOfMask(a - 1, 6)), FromSet(SetOfMask(b - 1, 6)))]],
    contains |-> [a \in 1..64 |-> [e \in 1..8 |-> Member(FromSet(SetOfMask(a - 1, 6)), e - 2)]],
    first_following |-> [a \in 1..64 |-> [e \in 1..8 |-> FirstFollowing(FromSet(SetOfMask(a - 1, 6)), e - 2)]] ]

\* Long operands chosen after the structure of the merge (SortedVec.tla: the recursion pops one value or appends / prepends a whole
\* operand): three consecutive runs of integers, each owned by the left operand, the right one or both, with lengths around the
\* powers of two (an implementation that moves runs, probes by doubling or bounds its recursion depth has its edges there), and
\* value-by-value interleavings of depth 8 .. 100 above a lower part that is shared, one-sided or empty.
RunLens == <<1, 16, 17, 32, 64, 65>>
Owners  == <<"a", "b", "ab">>
Digit(k, i) == (k \div (18 ^ i)) % 18
SegOwner(k, i) == Owners[(Digit(k, i) % 3) + 1]
SegLen(k, i) == RunLens[(Digit(k, i) \div 3) + 1]
SegStart(k, i) == 1 + (IF i > 0 THEN SegLen(k, 0) ELSE 0) + (IF i > 1 THEN SegLen(k, 1) ELSE 0)
Side(k, who) == UNION {IF SegOwner(k, i) \in who THEN SegStart(k, i)..(SegStart(k, i) + SegLen(k, i) - 1) ELSE {} : i \in 0..2}
RunCase(k) == [a |-> FromSet(Side(k, {"a", "ab"})), b |-> FromSet(Side(k, {"b", "ab"})), u |-> FromSet(Side(k, {"a", "b", "ab"}))]
Depths == <<8, 31, 63, 64, 65, 70, 100>>
Lows   == <<[a |-> {}, b |-> {}], [a |-> {5}, b |-> {5}], [a |-> {1, 5, 9}, b |-> {3, 5, 7}], [a |-> {2, 4}, b |-> {}], [a |-> {1, 2, 3}, b |-> {1, 2, 3}]>>
ZipCase(d, l) == LET sa == Lows[l].a \cup {10 + 2 * i : i \in 1..Depths[d]}
                     sb == Lows[l].b \cup {11 + 2 * i : i \in 1..Depths[d]}
                 IN [a |-> FromSet(sa), b |-> FromSet(sb), u |-> FromSet(sa \cup sb)]
Long == [k \in 1..(18 ^ 3) |-> RunCase(k - 1)] \o [j \in 1..35 |-> ZipCase(((j - 1) \div 5) + 1, ((j - 1) % 5) + 1)]

ASSUME JsonSerialize(IOEnv.OUT, Tables)
ASSUME JsonSerialize(IOEnv.OUT2, Long)
=============================================================================
