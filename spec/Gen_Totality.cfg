
