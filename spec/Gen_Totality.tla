------------------------------ MODULE Gen_Totality ------------------------------
(* Structured inputs for C04 chosen by the specification: numeric extremes in every        *)
(* numeric slot of the grammar, and single-character mutations (every prefix, every        *)
(* deletion, duplication and adjacent swap) of representative sentences.                   *)
EXTENDS Integers, Sequences, Json, IOUtils, SequencesExt, FiniteSets, TLC

Extremes == {"0", "00", "1", "9", "10", "12", "23", "24", "25", "47", "48", "49", "59", "60", "99", "100", "255", "256", "1000", "9999", "10000", "65535", "65536", "99999",
             "2147483647", "2147483648", "4294967295", "4294967296", "9223372036854775807", "9223372036854775808",
             "18446744073709551615", "18446744073709551616", "99999999999999999999999999", "999999999", "146097", "2932896"}
Slots == {<<"Mo[1] +", " days">>, <<"Mo[1] -", " days">>, <<"PH +", " days">>, <<"PH -", " day">>, <<"Jan 1 +", " days">>,
          <<"easter -", " days">>, <<"Dec 31 +", " days-Jan 1 +", " days">>, <<"2020-2030/", "">>, <<"2020-9999/", "">>, <<"week 1-53/", "">>,
          <<"week 1-1/", "">>, <<"", "">>, <<"", "-2030">>, <<"2020-", "">>, <<"Jan ", "">>, <<"Jan 1-", "">>, <<"week ", "">>,
          <<"week 1-", "">>, <<"Mo[", "]">>, <<"Mo[1-", "]">>, <<"Mo[-", "]">>, <<"10:00-12:00/", "">>, <<"10:00-16:00/", ":30">>,
          <<"", ":00-12:00">>, <<"10:", "-12:00">>, <<"10:00-", ":00">>, <<"10:00-47:", "">>, <<"(sunrise+", ":00)-12:00">>,
          <<"(dusk+", ":00)-10:00">>, <<"(dawn-", ":59)-(dusk+", ":59)">>, <<"", " Jan 1">>, <<"", "Jan">>, <<"Jun 7+Tu +", " days">>,
          <<"Fr[-1] +", " days 10:00-12:00">>, <<"2021 Mar 28 -", " days-Apr 16 +", " days off">>}
Fill(slot, v) == IF Len(slot) = 2 THEN slot[1] \o v \o slot[2] ELSE slot[1] \o v \o slot[2] \o v \o slot[3]
Numeric == {Fill(s, v) : s \in Slots, v \in Extremes}

Bases == {"Mo-Fr 10:00-18:00 ; PH off", "Jan 1-Mar 15 week 2-10/2 Mo[1,-1] +1 day 08:00-12:00,14:00-26:00 unknown \"c\"",
          "2020-2030/2: (sunrise+01:00)-(sunset-00:30) || closed \"x\"", "easter -2 days-easter +1 day, Dec 25 off", "24/7", "May 15-01 10:00+",
          "2021 Mar 28-Apr 16 off ; SH,Sa 10:00-12:00/30", "Nov-Feb week 52-03 Su-Tu 22:00-02:00 open \"a b\""}
Chars(s) == 1..Len(s)
PrefixesOf(s)  == {SubSeq(s, 1, k) : k \in 0..Len(s)}
Deletions(s) == {SubSeq(s, 1, i - 1) \o SubSeq(s, i + 1, Len(s)) : i \in Chars(s)}
Doublings(s) == {SubSeq(s, 1, i) \o SubSeq(s, i, Len(s)) : i \in Chars(s)}
Swaps(s)     == {SubSeq(s, 1, i - 1) \o SubSeq(s, i + 1, i + 1) \o SubSeq(s, i, i) \o SubSeq(s, i + 2, Len(s)) : i \in 1..(Len(s) - 1)}
Mutations == UNION {PrefixesOf(s) \cup Deletions(s) \cup Doublings(s) \cup Swaps(s) : s \in Bases}

\* every range slot of the grammar written backwards (end before start): where the parser accepts it, the range is empty or
\* wraps, and printing / normalising / evaluating what was built must still return. Always asked, whatever the sampling.
Reversed == {"Mo[3-1]", "Fr[5-2] 10:00-12:00", "Mo[5-1] +1 day", "Su[4-2],Mo[2-1] 08:00-09:00", "Sa[5-4],Sa[1]", "week 30-10/7", "week 53-01",
             "2030-2020/2", "2030-2020", "Jan 20-10", "Dec 31-01", "Dec-Jan", "Fr-Mo", "18:00-10:00/30", "10:30-10:15", "24:00-00:00",
             "(sunset+01:00)-(sunrise-01:00)", "Jun 10-Jun 5", "2024 Jun 10-2023 Jun 5", "easter +5 days-easter -5 days",
             "Jun 10+Mo-Jun 5-Su", "2025Dec-Jan", "9999-1900", "week 2-1", "Su-Su", "Feb 30-Feb 1", "48:00-00:00", "Mo[1-1]", "Mo[5-5],Mo[-1]"}
ASSUME ndJsonSerialize(IOEnv.OUT, SetToSeq({[text |-> t, always |-> FALSE] : t \in Numeric \cup Mutations} \cup {[text |-> t, always |-> TRUE] : t \in Reversed}))
ASSUME PrintT(<<"COUNTS", Cardinality(Numeric), Cardinality(Mutations)>>)
=============================================================================
