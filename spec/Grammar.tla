-------------------------------- MODULE Grammar --------------------------------
(* Concrete syntax of the supported opening_hours grammar (grammar.pest with the         *)
(* relaxations the library documents): for every AST node kind a `Show...` operator      *)
(* gives the spelling under a variant record v (which relaxations are used), so that     *)
(* Denotes(Show(ast, v)) = ast by construction. Used as a generator: TLC enumerates      *)
(* bounded families of ASTs x variants and the harness checks that the real parser       *)
(* builds exactly the AST (C05); the same sentences feed C04 and C06.                    *)
(*                                                                                       *)
(* AST records are those of DESIGN.md appendix C (what astjson.rs emits).                *)
EXTENDS Integers, Sequences, TLC

\* --- spelling variants --------------------------------------------------------
\* pad    : two-digit hours / day numbers (FALSE: single digits where possible)
\* closed : the word used for kind closed ("off" or "closed")
\* wide   : separator between wide-range selectors and weekday/time selectors (" ", ":" or ": ")
\* semi   : normal rule separator (" ; ", ";", "; ")
\* dash   : time span dash ("-" or " - ")
\* dsp    : space inside dates ("Jan 1" / "Jan1", "2020 Jan 1" / "2020Jan1")
\* wk     : "week " or "week"
Canonical == [pad |-> TRUE, closed |-> "closed", wide |-> " ", semi |-> " ; ", dash |-> "-", dsp |-> " ", wk |-> "week "]
Variants == {Canonical,
             [Canonical EXCEPT !.pad = FALSE],
             [Canonical EXCEPT !.closed = "off"],
             [Canonical EXCEPT !.wide = ":"],
             [Canonical EXCEPT !.wide = ": "],
             [Canonical EXCEPT !.semi = ";"],
             [Canonical EXCEPT !.semi = "; "],
             [Canonical EXCEPT !.dash = " - "],
             [Canonical EXCEPT !.dsp = ""],
             [Canonical EXCEPT !.wk = "week"],
             [pad |-> FALSE, closed |-> "off", wide |-> ":", semi |-> ";", dash |-> " - ", dsp |-> "", wk |-> "week"]}

\* --- basic tokens -------------------------------------------------------------
D2(n) == IF n < 10 THEN "0" \o ToString(n) ELSE ToString(n)
Num(n, v) == IF v.pad THEN D2(n) ELSE ToString(n)
WdName(i) == <<"Mo", "Tu", "We", "Th", "Fr", "Sa", "Su">>[i + 1]
MonthName(m) == <<"Jan", "Feb", "Mar", "Apr", "May", "Jun", "Jul", "Aug", "Sep", "Oct", "Nov", "Dec">>[m]

RECURSIVE Join(_, _)
Join(q, sep) == IF q = <<>> THEN "" ELSE IF Len(q) = 1 THEN q[1] ELSE q[1] \o sep \o Join(Tail(q), sep)
MapSeq(q, F(_)) == [i \in DOMAIN q |-> F(q[i])]

DaysOffset(n) == IF n = 0 THEN ""
                 ELSE " " \o (IF n > 0 THEN "+" \o ToString(n) ELSE "-" \o ToString(0 - n))
                      \o " day" \o (IF n > 1 \/ n < -1 THEN "s" ELSE "")

\* --- year ranges --------------------------------------------------------------
ShowYear(r) == ToString(r.a)
               \o (IF r.b = r.a /\ r.step = 1 THEN ""
                   ELSE IF r.b = 9999 /\ r.step = 1 /\ r.plus THEN "+"
                   ELSE "-" \o ToString(r.b))
               \o (IF r.step # 1 THEN "/" \o ToString(r.step) ELSE "")

\* --- month ranges and dates ---------------------------------------------------
ShowDate(dt, v) ==
  LET y == IF dt.year = -1 THEN "" ELSE ToString(dt.year) \o v.dsp
  IN IF dt.t = "easter" THEN y \o "easter"
     ELSE y \o MonthName(dt.month) \o v.dsp \o Num(dt.day, v)
ShowBoundOffset(b) ==
  (IF b.wsign = 1 THEN "+" \o WdName(b.wday) ELSE IF b.wsign = -1 THEN "-" \o WdName(b.wday) ELSE "")
  \o DaysOffset(b.days)
\* r.form: "single", "range", "plus" (date+), "daynum" (end bound written as a bare day number)
ShowMonthday(r, v) ==
  IF r.t = "month"
  THEN (IF r.year = -1 THEN "" ELSE ToString(r.year)) \o MonthName(r.a)
       \o (IF r.b = r.a THEN "" ELSE "-" \o MonthName(r.b))
  ELSE CASE r.form = "single" -> ShowDate(r.s.date, v) \o ShowBoundOffset(r.s)
         [] r.form = "plus"   -> ShowDate(r.s.date, v) \o ShowBoundOffset(r.s) \o "+"
         [] r.form = "daynum" -> ShowDate(r.s.date, v) \o ShowBoundOffset(r.s) \o "-" \o Num(r.e.date.day, v) \o ShowBoundOffset(r.e)
         [] OTHER -> ShowDate(r.s.date, v) \o ShowBoundOffset(r.s) \o "-" \o ShowDate(r.e.date, v) \o ShowBoundOffset(r.e)

\* --- week ranges --------------------------------------------------------------
ShowWeek(r, v) == Num(r.a, v)
                  \o (IF r.b = r.a /\ r.step = 1 THEN "" ELSE "-" \o Num(r.b, v))
                  \o (IF r.step # 1 THEN "/" \o ToString(r.step) ELSE "")

\* --- weekdays and holidays ----------------------------------------------------
\* r.nthtxt: the text written between brackets ("" when absent); the AST arrays are its denotation
ShowWeekday(r) ==
  IF r.t = "holiday" THEN (IF r.kind = "public" THEN "PH" ELSE "SH") \o DaysOffset(r.days)
  ELSE WdName(r.a) \o (IF r.b = r.a THEN "" ELSE "-" \o WdName(r.b))
       \o (IF r.nthtxt = "" THEN "" ELSE "[" \o r.nthtxt \o "]")
       \o DaysOffset(r.days)

\* --- times ----------------------------------------------------------------------
HM(m, v) == Num(m \div 60, v) \o ":" \o D2(m % 60)
ShowTime(t, v) ==
  IF t.t = "fixed" THEN HM(t.m, v)
  ELSE IF t.off = 0 THEN t.ev
  ELSE "(" \o t.ev \o (IF t.off > 0 THEN "+" \o HM(t.off, [v EXCEPT !.pad = TRUE]) ELSE "-" \o HM(0 - t.off, [v EXCEPT !.pad = TRUE])) \o ")"
\* sp.form: "range", "plus" (10:00+), "rangeplus" (10:00-12:00+), "repeat" (10:00-16:00/90)
ShowSpan(sp, v) ==
  CASE sp.form = "plus" -> ShowTime(sp.s, v) \o "+"
    [] sp.form = "rangeplus" -> ShowTime(sp.s, v) \o v.dash \o ShowTime(sp.e, v) \o "+"
    [] sp.form = "repeat" -> ShowTime(sp.s, v) \o "-" \o ShowTime(sp.e, v) \o "/" \o D2(sp.repeats)
    \* the interval written as hours and minutes (the only spelling from one hour on)
    [] sp.form = "repeat_hm" -> ShowTime(sp.s, v) \o "-" \o ShowTime(sp.e, v) \o "/" \o D2(sp.repeats \div 60) \o ":" \o D2(sp.repeats % 60)
    [] OTHER -> ShowTime(sp.s, v) \o v.dash \o ShowTime(sp.e, v)

\* --- rules ----------------------------------------------------------------------
\* a "written rule" w carries the AST fields plus how it is written:
\*   w.always (24/7), w.written_time (FALSE: time selector omitted = 00:00-24:00),
\*   w.kindword ("" = omitted), w.comment ("" = none)
ShowWide(w, v) ==
  LET \* a single year directly followed by a date is read as the year of that date (grammar.pest: "monthday_selector
      \* will be favored"): the year *selector* 2024 in front of dates can only be written as the range 2024-2024
      y  == Join(MapSeq(w.year, ShowYear), ",")
              \o (IF Len(w.year) = 1 /\ w.monthday # <<>> /\ w.year[1].a = w.year[1].b /\ w.year[1].step = 1
                  THEN "-" \o ToString(w.year[1].b) ELSE "")
      md == Join(MapSeq(w.monthday, LAMBDA r : ShowMonthday(r, v)), ",")
      wk == IF w.week = <<>> THEN "" ELSE v.wk \o Join(MapSeq(w.week, LAMBDA r : ShowWeek(r, v)), ",")
  IN y \o md \o (IF wk # "" /\ (y # "" \/ md # "") THEN " " ELSE "") \o wk
ShowSmall(w, v) ==
  LET wd == Join(MapSeq(w.weekday, ShowWeekday), ",")
      tm == IF w.written_time THEN Join(MapSeq(w.time, LAMBDA sp : ShowSpan(sp, v)), ",") ELSE ""
  IN wd \o (IF wd # "" /\ tm # "" THEN " " ELSE "") \o tm
KindWord(w, v) == IF w.kindword = "closed" THEN v.closed ELSE w.kindword
ShowRule(w, v) ==
  LET wide  == ShowWide(w, v)
      small == ShowSmall(w, v)
      sel   == IF w.always THEN "24/7"
               ELSE wide \o (IF wide # "" /\ small # "" THEN v.wide ELSE "") \o small
      kw    == KindWord(w, v)
      cm    == IF w.comment = "" THEN "" ELSE "\"" \o w.comment \o "\""
      \* a comment in front of the small-range selectors (`"by appointment":Mo-Fr 10:00-12:00`); only without wide selectors
      lead  == IF "lead" \in DOMAIN w /\ w.lead # "" THEN "\"" \o w.lead \o "\":" ELSE ""
  IN lead \o sel \o (IF kw # "" /\ sel # "" THEN " " ELSE "") \o kw
         \o (IF cm # "" /\ (sel # "" \/ kw # "") THEN " " ELSE "") \o cm

ShowSep(op, v) == CASE op = "normal" -> v.semi [] op = "additional" -> ", " [] OTHER -> " || "
RECURSIVE ShowRules(_, _, _)
ShowRules(ws, i, v) == IF i > Len(ws) THEN ""
                       ELSE (IF i = 1 THEN "" ELSE ShowSep(ws[i].op, v)) \o ShowRule(ws[i], v) \o ShowRules(ws, i + 1, v)
ShowExpr(ws, v) == ShowRules(ws, 1, v)

\* --- denotation: the AST record (appendix C) of a written rule -------------------
FullDay == <<[s |-> [t |-> "fixed", m |-> 0], e |-> [t |-> "fixed", m |-> 1440], open_end |-> FALSE, repeats |-> -1]>>
DenYear(r) == [a |-> r.a, b |-> r.b, step |-> r.step]
DenBound(b) == [date |-> b.date, wsign |-> b.wsign, wday |-> b.wday, days |-> b.days]
DenMonthday(r) == IF r.t = "month" THEN [t |-> "month", a |-> r.a, b |-> r.b, year |-> r.year]
                  ELSE [t |-> "date", s |-> DenBound(r.s), e |-> DenBound(r.e)]
DenWeekday(r) == IF r.t = "holiday" THEN [t |-> "holiday", kind |-> r.kind, days |-> r.days]
                 ELSE [t |-> "fixed", a |-> r.a, b |-> r.b, days |-> r.days, nth |-> r.nth, nthr |-> r.nthr]
DenSpan(sp) == [s |-> sp.s, e |-> sp.e, open_end |-> sp.form \in {"plus", "rangeplus"}, repeats |-> IF sp.form \in {"repeat", "repeat_hm"} THEN sp.repeats ELSE -1]
DenRule(w) ==
  [op |-> w.op,
   kind |-> IF w.kindword = "" THEN "open" ELSE w.kindword,
   \* the comments of a rule are kept sorted and without duplicates; TLC has no order on strings, so a rule written with a
   \* leading comment says itself which of the two comes first (leadFirst)
   comments |-> IF "lead" \in DOMAIN w /\ w.lead # ""
                THEN (IF w.comment = "" \/ w.comment = w.lead THEN <<w.lead>>
                      ELSE IF w.leadFirst THEN <<w.lead, w.comment>> ELSE <<w.comment, w.lead>>)
                ELSE IF w.comment = "" THEN <<>> ELSE <<w.comment>>,
   year |-> IF w.always THEN <<>> ELSE MapSeq(w.year, DenYear),
   monthday |-> IF w.always THEN <<>> ELSE MapSeq(w.monthday, DenMonthday),
   week |-> IF w.always THEN <<>> ELSE MapSeq(w.week, DenYear),
   weekday |-> IF w.always THEN <<>> ELSE MapSeq(w.weekday, DenWeekday),
   time |-> IF w.always \/ ~w.written_time THEN FullDay ELSE MapSeq(w.time, DenSpan)]
DenExpr(ws) == [rules |-> MapSeq(ws, DenRule)]
=============================================================================
