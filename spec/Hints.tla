-------------------------------- MODULE Hints --------------------------------
(* The "next possible change" hints (filter/date_filter.rs next_change_hint, opening_hours.rs    *)
(* next_change_hint): the lower bounds that let the interval iterator jump over days on which    *)
(* nothing changes. Two layers:                                                                   *)
(*                                                                                                *)
(*  - the CONTRACT, which is all the iterator relies on: a hint h for day n is none, or a later   *)
(*    day such that no day strictly between n and h differs from n (per selector: the selector    *)
(*    matches the same way; per expression: every skipped day is one whole-day period of the      *)
(*    kind day n ends with);                                                                      *)
(*  - a TRANSCRIPTION, branch by branch, of the hints of the year, month, week and holiday        *)
(*    selectors, of the list / day-selector / expression combination and of the "rule applies or  *)
(*    spills today" test. MC_Hints proves the contract for the transcription over bounded         *)
(*    parameters x every day of a window; Trace_Hints compares the transcription with the hint    *)
(*    the real code returned (hook verif_next_change_hint) and checks the contract on the days    *)
(*    the real code evaluated. Date ranges: all three branches (both bounds fixed with a year on the start; a single day that   *)
(*    does not exist every year; the generic pairing of projected bounds) are transcribed as well.   *)
(*                                                                                                *)
(* A hint is a day number; NONE (Rust: None) sorts below every day, as Option does.               *)
EXTENDS DayEval

NONE == -100000000
MinOfSeq(q) == LET S == {q[i] : i \in DOMAIN q} IN CHOOSE x \in S : \A z \in S : x <= z
Jan1(y) == DaysFromCivil(y, 1, 1)

-----------------------------------------------------------------------------
(* year range a-b/step                                                                            *)
YearHint(r, n) ==
  LET y == YearOf(n) IN
  IF y < 0 \/ y > 65535 THEN DateEnd
  ELSE IF r.a > r.b THEN NONE
  ELSE IF r.b < y THEN DateEnd                                       \* 1. past the range: never changes again
  ELSE IF y < r.a THEN Jan1(r.a)                                     \* 2. before the range
  ELSE IF r.step = 1 THEN Jan1(r.b + 1)                              \* 3. in a plain range
  ELSE IF (y - r.a) % r.step = 0 THEN Jan1(y + 1)                    \* 4. on a matching year
  ELSE LET up == r.step * (((y - r.a) + r.step - 1) \div r.step)     \* 5. between two matching years
       IN Jan1(Min2(65535, r.a + up))

(* month range without / with a year                                                              *)
NextMonth(m) == (m % 12) + 1
MonthHint(r, n) ==
  LET m == MonthOf(n)
      y == YearOf(n)
  IN IF r.year = -1
     THEN IF NextMonth(r.b) = r.a THEN DateEnd                       \* the range covers the twelve months
          ELSE LET naive == IF WrapIn(r.a, r.b, m) THEN DaysFromCivil(y, NextMonth(r.b), 1) ELSE DaysFromCivil(y, r.a, 1)
                   nextY == IF WrapIn(r.a, r.b, m) THEN DaysFromCivil(y + 1, NextMonth(r.b), 1) ELSE DaysFromCivil(y + 1, r.a, 1)
               IN IF naive > n THEN naive ELSE nextY
     ELSE LET start == DaysFromCivil(r.year, r.a, 1)
              end   == IF r.a <= r.b /\ r.b < 12 THEN DaysFromCivil(r.year, r.b + 1, 1)
                       ELSE DaysFromCivil(r.year + 1, (r.b % 12) + 1, 1)       \* first day after the range
          IN IF end - 1 < n THEN DateEnd                              \* next_change_from_intervals on [start, end - 1]
             ELSE IF start <= n THEN end ELSE start

(* date ranges (MonthdayRange::Date), the three branches of the code                                 *)
ValidDay(Y, m, d) == ValidYMD(Y, m, d)
\* ensure_increasing_iter: keep a value only if it is greater than the last kept one
RECURSIVE EnsureInc(_, _)
EnsureInc(q, last) == IF q = <<>> THEN <<>>
                      ELSE IF q[1] <= last THEN EnsureInc(Tail(q), last)
                      ELSE <<q[1]>> \o EnsureInc(Tail(q), q[1])
RECURSIVE DropBefore(_, _)
DropBefore(q, x) == IF q # <<>> /\ q[1] < x THEN DropBefore(Tail(q), x) ELSE q
\* intervals_from_bounds: an end closes the first start it follows and is only consumed when both coincide
RECURSIVE FromBounds(_, _)
FromBounds(ss, es) ==
  IF ss = <<>> THEN <<>>
  ELSE LET es1 == DropBefore(es, ss[1]) IN
       IF es1 = <<>> THEN <<[s |-> ss[1], e |-> DateEnd]>> \o FromBounds(Tail(ss), es1)
       ELSE <<[s |-> ss[1], e |-> es1[1]]>> \o FromBounds(Tail(ss), IF ss[1] = es1[1] THEN Tail(es1) ELSE es1)
\* next_change_from_intervals
NextFromIntervals(n, ivs) ==
  LET later == SelectSeq(ivs, LAMBDA iv : iv.e >= n) IN
  IF later = <<>> THEN DateEnd
  ELSE IF later[1].s <= n THEN later[1].e + 1 ELSE later[1].s
NoLast == -200000000
NextFromBounds(n, ss, es) == NextFromIntervals(n, FromBounds(EnsureInc(ss, NoLast), EnsureInc(es, NoLast)))

\* an ordered sequence of the elements of a finite set of integers
RECURSIVE SortedSeq(_)
SortedSeq(S) == IF S = {} THEN <<>> ELSE LET m == CHOOSE x \in S : \A z \in S : x <= z IN <<m>> \o SortedSeq(S \ {m})
\* the bounds of a date range projected on a list of years (date_on_year + offset), in the order of the years
ProjAll(b, years, after) ==
  LET all == [i \in DOMAIN years |-> BoundAt(b, years[i], after)]
  IN SelectSeq(all, LAMBDA x : x # NoDate)

DateHint(r, n) ==
  LET y  == YearOf(n)
      sd == r.s.date
      ed == r.e.date
  IN
  IF sd.t = "fixed" /\ HasYear(sd) /\ ed.t = "fixed" THEN
       \* both bounds computed directly; an end before the start is taken one year later
       IF ~ValidDay(sd.year, sd.month, sd.day) THEN NONE
       ELSE LET ey == IF HasYear(ed) THEN ed.year ELSE sd.year IN
            IF ~ValidDay(ey, ed.month, ed.day) THEN NONE
            ELSE LET start == Shift(r.s, DaysFromCivil(sd.year, sd.month, sd.day))
                     cand  == Shift(r.e, DaysFromCivil(ey, ed.month, ed.day))
                     cc    == CivilFromDays(cand)
                 IN IF start <= cand THEN NextFromBounds(n, <<start>>, <<cand>>)
                    ELSE IF ~ValidDay(cc[1] + 1, cc[2], cc[3]) THEN NONE
                    ELSE NextFromBounds(n, <<start>>, <<DaysFromCivil(cc[1] + 1, cc[2], cc[3])>>)
  ELSE IF sd.t = "fixed" /\ sd = ed /\ sd.day > 28 THEN
       \* a single day that does not exist every year: its occurrences in the years around (eight years between two Feb 29)
       LET years == IF HasYear(sd) THEN <<sd.year>> ELSE [i \in 1..10 |-> y - 2 + i]
           valid == SelectSeq(years, LAMBDA Y : ValidDay(Y, sd.month, sd.day))
       IN NextFromIntervals(n, [i \in DOMAIN valid |-> [s |-> Shift(r.s, DaysFromCivil(valid[i], sd.month, sd.day)),
                                                        e |-> Shift(r.e, DaysFromCivil(valid[i], sd.month, sd.day))]])
  ELSE \* generic: the dates of the eleven years around, and of the years the bounds are attached to (R21)
       LET years == SortedSeq(((y - 1)..(y + 10))
                              \cup (IF HasYear(sd) THEN {sd.year, sd.year + 1} ELSE {})
                              \cup (IF HasYear(ed) THEN {ed.year} ELSE {}))
       IN NextFromBounds(n, ProjAll(r.s, years, TRUE), ProjAll(r.e, years, FALSE))
MonthdayHint(r, n) == IF r.t = "month" THEN MonthHint(r, n) ELSE DateHint(r, n)

(* week range a-b/step; Monday of ISO week w of ISO year Y, none if that year has no such week       *)
WeeksIn(Y) == IsoWeek(DaysFromCivil(Y, 12, 28))[2]
IsoMonday(Y, w) == IF w < 1 \/ w > WeeksIn(Y) THEN NONE
                   ELSE LET jan4 == DaysFromCivil(Y, 1, 4) IN jan4 - Weekday(jan4) + 7 * (w - 1)
WeekHint(r, n) ==
  LET iw   == IsoWeek(n)
      week == iw[2]
      wn   == IF r.a <= week /\ week <= r.b
              THEN IF r.step = 1 THEN (r.b % 54) + 1
                   ELSE IF (week - r.a) % r.step = 0 THEN (week % 54) + 1
                   ELSE 0                                               \* (no hint)
              ELSE r.a
  IN IF r.a > r.b \/ wn = 0 THEN NONE
     ELSE LET res == IsoMonday(iw[1], wn)
          IN IF res = NONE THEN NONE
             ELSE IF res > n THEN res
             ELSE IsoMonday(iw[1] + 1, wn)

(* weekday selector: a holiday calendar knows its next date; plain weekdays give no hint             *)
WeekdayHint(r, n, ctx) ==
  IF r.t = "fixed" THEN NONE
  ELSE LET cal == IF r.kind = "public" THEN ctx.ph ELSE ctx.sh
           at  == n - r.days
           after == {x \in cal : x > at}
       IN IF at \in cal THEN n + 1
          ELSE IF after = {} THEN DateEnd
          ELSE (CHOOSE x \in after : \A z \in after : x <= z) + r.days

-----------------------------------------------------------------------------
(* combination: a list of ranges (any of them may match), the four dimensions of a rule, the rules  *)
Transcribed(rule) == TRUE
ListHint(q, H(_)) == IF q = <<>> THEN DateEnd ELSE MinOfSeq([i \in DOMAIN q |-> H(q[i])])
DaySelHint(rule, n, ctx) ==
  IF DayEmpty(rule) THEN DateEnd
  ELSE MinOfSeq(<<ListHint(rule.year, LAMBDA r : YearHint(r, n)),
                  ListHint(rule.monthday, LAMBDA r : MonthdayHint(r, n)),
                  ListHint(rule.week, LAMBDA r : WeekHint(r, n)),
                  ListHint(rule.weekday, LAMBDA r : WeekdayHint(r, n, ctx))>>)

FullSpan == [s |-> [t |-> "fixed", m |-> 0], e |-> [t |-> "fixed", m |-> 1440], open_end |-> FALSE, repeats |-> -1]
ImmutableFullDay(rule) == \A i \in DOMAIN rule.time : rule.time[i] = FullSpan
AppliesOrSpills(rule, n, ctx) == DayMatch(rule, n, ctx) \/ DayMatch(rule, n - 1, ctx)

RuleHint(rule, n, ctx) ==
  IF ImmutableFullDay(rule) \/ ~AppliesOrSpills(rule, n, ctx) THEN DaySelHint(rule, n, ctx) ELSE n + 1
ExprHint(expr, n, ctx) ==
  IF n < DateStart THEN DateStart
  ELSE IF IsConstant(expr) THEN DateEnd
  ELSE MinOfSeq([i \in DOMAIN expr.rules |-> RuleHint(expr.rules[i], n, ctx)])
ExprTranscribed(expr) == \A i \in DOMAIN expr.rules : Transcribed(expr.rules[i])

-----------------------------------------------------------------------------
(* the contract                                                                                     *)
Between(n, h, look) == (n + 1)..(Min2(h, n + look + 1) - 1)
\* per selector: M(d) is the selector's match on day d
SelectorSound(h, n, look, M(_)) == h = NONE \/ (h > n /\ \A d \in Between(n, h, look) : M(d) = M(n))
\* per expression, what the iterator needs when it jumps from day n to day h: the skipped days continue the last period of n
SkippedOk(expr, n, d, ctx) ==
  LET t0 == DayTiling(expr, n, ctx)
      td == DayTiling(expr, d, ctx)
  IN Len(td) = 1 /\ td[1].k = t0[Len(t0)].k
ExprSound(expr, h, n, look, ctx) ==
  h = NONE \/ (h > n /\ \A d \in Between(n, h, look) : d < DateEnd => SkippedOk(expr, n, d, ctx))
=============================================================================
