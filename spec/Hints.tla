-------------------------------- MODULE Hints --------------------------------
(* The "next possible change" hints (filter/date_filter.rs next_change_hint, opening_hours.rs    *)
(* next_change_hint): the lower bounds that let the interval iterator jump over days on which    *)
(* nothing changes. Two layers:                                                                   *)
(*                                                                                                *)
(*  - the CONTRACT, which is all the iterator relies on: a hint h for day n is none, or a later   *)
(*    day such that no day strictly between n and h differs from n (per selector: the selector    *)
(*    matches the same way; per expression: every skipped day is one whole-day period of the      *)
(*    kind day n ends with);                                                                      *)
(*  - a TRANSCRIPTION, branch by branch, of the hints of the year, month, week and holiday        *)
(*    selectors, of the list / day-selector / expression combination and of the "rule applies or  *)
(*    spills today" test. MC_Hints proves the contract for the transcription over bounded         *)
(*    parameters x every day of a window; Trace_Hints compares the transcription with the hint    *)
(*    the real code returned (hook verif_next_change_hint) and checks the contract on the days    *)
(*    the real code evaluated. Date-range selectors are covered by the contract only.             *)
(*                                                                                                *)
(* A hint is a day number; NONE (Rust: None) sorts below every day, as Option does.               *)
EXTENDS DayEval

NONE == -100000000
MinOfSeq(q) == LET S == {q[i] : i \in DOMAIN q} IN CHOOSE x \in S : \A z \in S : x <= z
Jan1(y) == DaysFromCivil(y, 1, 1)

-----------------------------------------------------------------------------
(* year range a-b/step                                                                            *)
YearHint(r, n) ==
  LET y == YearOf(n) IN
  IF y < 0 \/ y > 65535 THEN DateEnd
  ELSE IF r.a > r.b THEN NONE
  ELSE IF r.b < y THEN DateEnd                                       \* 1. past the range: never changes again
  ELSE IF y < r.a THEN Jan1(r.a)                                     \* 2. before the range
  ELSE IF r.step = 1 THEN Jan1(r.b + 1)                              \* 3. in a plain range
  ELSE IF (y - r.a) % r.step = 0 THEN Jan1(y + 1)                    \* 4. on a matching year
  ELSE LET up == r.step * (((y - r.a) + r.step - 1) \div r.step)     \* 5. between two matching years
       IN Jan1(Min2(65535, r.a + up))

(* month range without / with a year                                                              *)
NextMonth(m) == (m % 12) + 1
MonthHint(r, n) ==
  LET m == MonthOf(n)
      y == YearOf(n)
  IN IF r.year = -1
     THEN IF NextMonth(r.b) = r.a THEN DateEnd                       \* the range covers the twelve months
          ELSE LET naive == IF WrapIn(r.a, r.b, m) THEN DaysFromCivil(y, NextMonth(r.b), 1) ELSE DaysFromCivil(y, r.a, 1)
                   nextY == IF WrapIn(r.a, r.b, m) THEN DaysFromCivil(y + 1, NextMonth(r.b), 1) ELSE DaysFromCivil(y + 1, r.a, 1)
               IN IF naive > n THEN naive ELSE nextY
     ELSE LET start == DaysFromCivil(r.year, r.a, 1)
              end   == IF r.a <= r.b /\ r.b < 12 THEN DaysFromCivil(r.year, r.b + 1, 1)
                       ELSE DaysFromCivil(r.year + 1, (r.b % 12) + 1, 1)       \* first day after the range
          IN IF end - 1 < n THEN DateEnd                              \* next_change_from_intervals on [start, end - 1]
             ELSE IF start <= n THEN end ELSE start

(* week range a-b/step; Monday of ISO week w of ISO year Y, none if that year has no such week       *)
WeeksIn(Y) == IsoWeek(DaysFromCivil(Y, 12, 28))[2]
IsoMonday(Y, w) == IF w < 1 \/ w > WeeksIn(Y) THEN NONE
                   ELSE LET jan4 == DaysFromCivil(Y, 1, 4) IN jan4 - Weekday(jan4) + 7 * (w - 1)
WeekHint(r, n) ==
  LET iw   == IsoWeek(n)
      week == iw[2]
      wn   == IF r.a <= week /\ week <= r.b
              THEN IF r.step = 1 THEN (r.b % 54) + 1
                   ELSE IF (week - r.a) % r.step = 0 THEN (week % 54) + 1
                   ELSE 0                                               \* (no hint)
              ELSE r.a
  IN IF r.a > r.b \/ wn = 0 THEN NONE
     ELSE LET res == IsoMonday(iw[1], wn)
          IN IF res = NONE THEN NONE
             ELSE IF res > n THEN res
             ELSE IsoMonday(iw[1] + 1, wn)

(* weekday selector: a holiday calendar knows its next date; plain weekdays give no hint             *)
WeekdayHint(r, n, ctx) ==
  IF r.t = "fixed" THEN NONE
  ELSE LET cal == IF r.kind = "public" THEN ctx.ph ELSE ctx.sh
           at  == n - r.days
           after == {x \in cal : x > at}
       IN IF at \in cal THEN n + 1
          ELSE IF after = {} THEN DateEnd
          ELSE (CHOOSE x \in after : \A z \in after : x <= z) + r.days

-----------------------------------------------------------------------------
(* combination: a list of ranges (any of them may match), the four dimensions of a rule, the rules  *)
Transcribed(rule) == \A i \in DOMAIN rule.monthday : rule.monthday[i].t = "month"
ListHint(q, H(_)) == IF q = <<>> THEN DateEnd ELSE MinOfSeq([i \in DOMAIN q |-> H(q[i])])
DaySelHint(rule, n, ctx) ==
  IF DayEmpty(rule) THEN DateEnd
  ELSE MinOfSeq(<<ListHint(rule.year, LAMBDA r : YearHint(r, n)),
                  ListHint(rule.monthday, LAMBDA r : MonthHint(r, n)),
                  ListHint(rule.week, LAMBDA r : WeekHint(r, n)),
                  ListHint(rule.weekday, LAMBDA r : WeekdayHint(r, n, ctx))>>)

FullSpan == [s |-> [t |-> "fixed", m |-> 0], e |-> [t |-> "fixed", m |-> 1440], open_end |-> FALSE, repeats |-> -1]
ImmutableFullDay(rule) == \A i \in DOMAIN rule.time : rule.time[i] = FullSpan
AppliesOrSpills(rule, n, ctx) == DayMatch(rule, n, ctx) \/ DayMatch(rule, n - 1, ctx)

RuleHint(rule, n, ctx) ==
  IF ImmutableFullDay(rule) \/ ~AppliesOrSpills(rule, n, ctx) THEN DaySelHint(rule, n, ctx) ELSE n + 1
ExprHint(expr, n, ctx) ==
  IF n < DateStart THEN DateStart
  ELSE IF IsConstant(expr) THEN DateEnd
  ELSE MinOfSeq([i \in DOMAIN expr.rules |-> RuleHint(expr.rules[i], n, ctx)])
ExprTranscribed(expr) == \A i \in DOMAIN expr.rules : Transcribed(expr.rules[i])

-----------------------------------------------------------------------------
(* the contract                                                                                     *)
Between(n, h, look) == (n + 1)..(Min2(h, n + look + 1) - 1)
\* per selector: M(d) is the selector's match on day d
SelectorSound(h, n, look, M(_)) == h = NONE \/ (h > n /\ \A d \in Between(n, h, look) : M(d) = M(n))
\* per expression, what the iterator needs when it jumps from day n to day h: the skipped days continue the last period of n
SkippedOk(expr, n, d, ctx) ==
  LET t0 == DayTiling(expr, n, ctx)
      td == DayTiling(expr, d, ctx)
  IN Len(td) = 1 /\ td[1].k = t0[Len(t0)].k
ExprSound(expr, h, n, look, ctx) ==
  h = NONE \/ (h > n /\ \A d \in Between(n, h, look) : d < DateEnd => SkippedOk(expr, n, d, ctx))
=============================================================================
