------------------------------- MODULE Iterator -------------------------------
(* The interval stream of opening-hours (opening_hours.rs): TimeDomainIterator (machine  *)
(* M3), its wrapper iter_range, state and next_change, the supported date range and the  *)
(* interval-size bound.                                                                  *)
(*                                                                                       *)
(* The daily schedules are abstract: Sched[d] is the tiling of day d (a sequence of      *)
(* [s, e, k, c] with minutes s, e), for every day of the finite calendar Days. Instants  *)
(* are pairs <<day, second of day>>. The declarative part says what the stream must be   *)
(* (the pointwise partition); the machine part is written step for step like the code,   *)
(* with the day-jump hint left nondeterministic but sound.                               *)
EXTENDS Integers, Sequences, FiniteSets, TLC

CONSTANTS DStart,    \* first supported day (1900-01-01)
          DEnd       \* first unsupported day (10000-01-01); every day outside is closed all day

ClosedDay == <<[s |-> 0, e |-> 1440, k |-> "closed", c |-> {}]>>

\* lexicographic order on instants
ILt(a, b)  == a[1] < b[1] \/ (a[1] = b[1] /\ a[2] < b[2])
ILe(a, b)  == a = b \/ ILt(a, b)
IMin(a, b) == IF ILt(a, b) THEN a ELSE b
IMax(a, b) == IF ILt(a, b) THEN b ELSE a
EndInstant == <<DEnd, 0>>

\* the schedule of any day, given the schedules of the supported ones
TilingOf(Sched, d) == IF d >= DStart /\ d < DEnd /\ d \in DOMAIN Sched THEN Sched[d] ELSE ClosedDay
TileAt(til, minute) == til[CHOOSE i \in DOMAIN til : til[i].s <= minute /\ minute < til[i].e]
\* the state the daily schedules give to instant t (C03: state)
KindAtInstant(Sched, t) == TileAt(TilingOf(Sched, t[1]), t[2] \div 60).k
CommentsAtInstant(Sched, t) == TileAt(TilingOf(Sched, t[1]), t[2] \div 60).c

-----------------------------------------------------------------------------
(* Declarative stream: the partition of [from, min(to, END)) into maximal intervals of   *)
(* constant state. Built from the elementary pieces (one per tile of each day).          *)

Pieces(Sched, d) == LET til == TilingOf(Sched, d)
                    IN [i \in DOMAIN til |-> [a |-> <<d, 60 * til[i].s>>,
                                             b |-> IF til[i].e = 1440 THEN <<d + 1, 0>> ELSE <<d, 60 * til[i].e>>,
                                             k |-> til[i].k]]

RECURSIVE AllPieces(_, _, _)
AllPieces(Sched, d, last) == IF d > last THEN <<>> ELSE Pieces(Sched, d) \o AllPieces(Sched, d + 1, last)

\* merge neighbours of equal kind
RECURSIVE Merge(_)
Merge(ps) == IF Len(ps) < 2 THEN ps
             ELSE IF ps[1].k = ps[2].k
                  THEN Merge(<<[ps[1] EXCEPT !.b = ps[2].b]>> \o SubSeq(ps, 3, Len(ps)))
                  ELSE <<ps[1]>> \o Merge(Tail(ps))

\* clip to [from, to) and drop what falls outside
RECURSIVE ClipAll(_, _, _)
ClipAll(ps, from, to) ==
  IF ps = <<>> THEN <<>>
  ELSE LET p == ps[1]
           q == [p EXCEPT !.a = IMax(p.a, from), !.b = IMin(p.b, to)]
       IN (IF ILt(q.a, q.b) THEN <<q>> ELSE <<>>) \o ClipAll(Tail(ps), from, to)

Stream(Sched, from, to) ==
  LET f == IMin(from, EndInstant)
      t == IMin(to, EndInstant)
  IN IF ~ILt(f, t) THEN <<>>
     ELSE Merge(ClipAll(AllPieces(Sched, f[1], t[1]), f, t))

\* what C02 requires of a list of intervals, independently of how it was produced
IsStreamOf(ivs, Sched, from, to) ==
  LET f == IMin(from, EndInstant)
      t == IMin(to, EndInstant)
  IN IF ~ILt(f, t) THEN ivs = <<>>
     ELSE /\ ivs # <<>>
          /\ ivs[1].a = f /\ ivs[Len(ivs)].b = t                               \* exact cover
          /\ \A i \in DOMAIN ivs : ILt(ivs[i].a, ivs[i].b)                     \* non-empty
          /\ \A i \in 1..(Len(ivs) - 1) : ivs[i].b = ivs[i + 1].a /\ ivs[i].k # ivs[i + 1].k
          /\ ivs = Stream(Sched, from, to)                                     \* states = pointwise states

\* C03: next_change(t) = the end of the interval containing t, none (<<>>) from END on
NextChange(Sched, t) ==
  LET s == Stream(Sched, t, EndInstant)
  IN IF s = <<>> \/ ~ILt(s[1].b, EndInstant) THEN <<>> ELSE s[1].b
=============================================================================
