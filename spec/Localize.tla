-------------------------------- MODULE Localize --------------------------------
(* Time-zone contexts (localization/localize.rs, TzLocation). Instants are integers       *)
(* (seconds since 1970-01-01T00:00Z in traces, abstract ticks in the model). A zone is a  *)
(* table: a sequence of [from, off] with increasing `from`: offset `off` applies from     *)
(* absolute instant `from` (the first entry applies from the beginning of time).          *)
(*   Naive(tab, i)    : wall-clock time of instant i           (Localize::naive)          *)
(*   Datetime(tab, n) : the instant of wall-clock time n: the LATEST one if n is           *)
(*                      ambiguous (fold); if n does not exist (gap) the code retries with  *)
(*                      n + Step, n + 2 Step ... (minute stepping)  (Localize::datetime)   *)
EXTENDS Integers, Sequences, FiniteSets

CONSTANT Step          \* 60 seconds in the code

SegOf(tab, i) == CHOOSE k \in DOMAIN tab : tab[k].from <= i /\ (k = Len(tab) \/ i < tab[k + 1].from)
OffAt(tab, i) == tab[SegOf(tab, i)].off
Naive(tab, i) == i + OffAt(tab, i)

\* instants whose wall-clock time is n
Candidates(tab, n) == {n - tab[k].off : k \in {k \in DOMAIN tab :
                          LET i == n - tab[k].off IN tab[k].from <= i /\ (k = Len(tab) \/ i < tab[k + 1].from)}}
Exists(tab, n) == Candidates(tab, n) # {}
Ambiguous(tab, n) == Cardinality(Candidates(tab, n)) > 1
MaxOf(S) == CHOOSE x \in S : \A y \in S : y <= x

RECURSIVE Datetime(_, _)
Datetime(tab, n) == IF Exists(tab, n) THEN MaxOf(Candidates(tab, n)) ELSE Datetime(tab, n + Step)

\* a table is well formed when entries are increasing and the first applies from the start
WellFormed(tab) == tab # <<>> /\ \A k \in 1..(Len(tab) - 1) : tab[k].from < tab[k + 1].from
=============================================================================
