SPECIFICATION Spec
CONSTANTS
  Dates <- MC_Dates
  MaxCals = 3
INVARIANTS RoundTrip CursorExact AllConsumed BytesAreWords
CHECK_DEADLOCK FALSE
