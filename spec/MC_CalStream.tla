----------------------------- MODULE MC_CalStream -----------------------------
(* Several calendars written one after the other into one stream and read back: every   *)
(* read returns the calendar written at that place and leaves the cursor exactly at the *)
(* start of the next one (this is how the embedded holiday database is decoded).        *)
EXTENDS CompactCalendar

CONSTANTS Dates, MaxCals

VARIABLES stream, written, cursor, read
vars == <<stream, written, cursor, read>>

RECURSIVE Build(_)
Build(S) == IF S = {} THEN Empty ELSE LET d == CHOOSE d \in S : TRUE IN Insert(Build(S \ {d}), d)
Cals == {Build(S) : S \in SUBSET Dates}

Init == stream = <<>> /\ written = <<>> /\ cursor = 1 /\ read = <<>>

Write == /\ Len(written) < MaxCals
         /\ \E c \in Cals : stream' = stream \o Words(c) /\ written' = Append(written, c)
         /\ UNCHANGED <<cursor, read>>

Read == /\ Len(read) < Len(written)
        /\ LET r == ReadAt(stream, cursor)
           IN read' = Append(read, r.cal) /\ cursor' = r.next
        /\ UNCHANGED <<stream, written>>

Next == Write \/ Read
Spec == Init /\ [][Next]_vars

RoundTrip == \A i \in 1..Len(read) : read[i] = written[i]
RECURSIVE SumLen(_, _)
SumLen(cs, n) == IF n = 0 THEN 0 ELSE WordLen(cs[n]) + SumLen(cs, n - 1)
CursorExact == cursor = 1 + SumLen(written, Len(read))
AllConsumed == Len(read) = Len(written) => cursor = Len(stream) + 1
BytesAreWords == \A c \in Cals : ByteLen(c) = 4 + 8 + 4 * (WordLen(c) - 2)

MC_Dates == {<<-1, 12, 31>>, <<0, 2, 29>>, <<2, 1, 1>>}
=============================================================================
