SPECIFICATION Spec
CONSTANTS
  Lo = 10000
  Hi = 30000
  Stride = 5000
INVARIANTS RoundTrip Successor WeekStructure Period400
CHECK_DEADLOCK FALSE
