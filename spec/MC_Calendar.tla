------------------------------ MODULE MC_Calendar ------------------------------
(* Model-level sanity of Calendar.tla: round trip, successor structure, weekday/ISO     *)
(* week/Easter anchors taken from the repository's own tests, 400-year periodicity.     *)
EXTENDS Calendar, TLC

CONSTANTS Lo, Hi,     \* day-number window checked exhaustively
          Stride      \* the window is walked as independent chains of this length (parallelism)

VARIABLE n
Init == n \in {Lo + k * Stride : k \in 0..((Hi - Lo) \div Stride)}
Next == n < Hi /\ (n + 1 - Lo) % Stride # 0 /\ n' = n + 1
Spec == Init /\ [][Next]_n

RoundTrip == LET c == CivilFromDays(n) IN ValidYMD(c[1], c[2], c[3]) /\ DaysFromCivil(c[1], c[2], c[3]) = n
Successor ==
  LET c == CivilFromDays(n)
      s == CivilFromDays(n + 1)
  IN IF c[3] < DaysInMonth(c[1], c[2]) THEN s = <<c[1], c[2], c[3] + 1>>
     ELSE IF c[2] < 12 THEN s = <<c[1], c[2] + 1, 1>>
     ELSE s = <<c[1] + 1, 1, 1>>
WeekStructure ==
  LET w == IsoWeek(n)
      v == IsoWeek(n + 1)
  IN /\ w[2] \in 1..53
     /\ IF Weekday(n) = 6 THEN (v = <<w[1], w[2] + 1>> \/ (v = <<w[1] + 1, 1>> /\ w[2] \in {52, 53}))
        ELSE v = w
     /\ (w[2] = 1 /\ Weekday(n) = 3) => (YearOf(n) = w[1] /\ MonthOf(n) = 1 /\ DayOf(n) <= 7)
Period400 == /\ Weekday(n + 146097) = Weekday(n)
             /\ IsoWeek(n + 146097)[2] = IsoWeek(n)[2]
             /\ LET c == CivilFromDays(n)
                    p == CivilFromDays(n + 146097)
                IN p = <<c[1] + 400, c[2], c[3]>>

Anchors ==
  /\ DaysFromCivil(1970, 1, 1) = 0 /\ DaysFromCivil(1900, 1, 1) = -25567 /\ DaysFromCivil(10000, 1, 1) = 2932897
  /\ Weekday(DaysFromCivil(2020, 6, 1)) = 0            \* a Monday
  /\ Weekday(DaysFromCivil(2024, 2, 29)) = 3           \* a Thursday
  \* utils/dates.rs test_easter
  /\ Easter(1901) = DaysFromCivil(1901, 4, 7)  /\ Easter(1961) = DaysFromCivil(1961, 4, 2)
  /\ Easter(2024) = DaysFromCivil(2024, 3, 31) /\ Easter(2025) = DaysFromCivil(2025, 4, 20)
  /\ Easter(2050) = DaysFromCivil(2050, 4, 10) /\ Easter(2106) = DaysFromCivil(2106, 4, 18)
  /\ Easter(2200) = DaysFromCivil(2200, 4, 6)  /\ Easter(3000) = DaysFromCivil(3000, 4, 13)
  \* ISO weeks: 2020-12-31 is week 53, 2021-01-03 still week 53, 2021-01-04 week 1, 2018-12-31 week 1
  /\ IsoWeek(DaysFromCivil(2020, 12, 31)) = <<2020, 53>> /\ IsoWeek(DaysFromCivil(2021, 1, 3)) = <<2020, 53>>
  /\ IsoWeek(DaysFromCivil(2021, 1, 4)) = <<2021, 1>>   /\ IsoWeek(DaysFromCivil(2018, 12, 31)) = <<2019, 1>>
  \* Easter is always a Sunday between March 22 and April 25
  /\ \A y \in 1899..10010 : LET e == Easter(y) IN
        Weekday(e) = 6 /\ e >= DaysFromCivil(y, 3, 22) /\ e <= DaysFromCivil(y, 4, 25)
ASSUME Anchors
\* the thorough window: every day of the supported range 1900-01-01 .. 9999-12-31 and a year around it
LoDef == -25567 - 366
HiDef == 2932897 + 366
=============================================================================
