SPECIFICATION Spec
CONSTANTS
  Lo <- LoDef
  Hi <- HiDef
  Stride = 4000
INVARIANTS RoundTrip Successor WeekStructure Period400
CHECK_DEADLOCK FALSE
