SPECIFICATION Spec
CONSTANTS
  Universe <- U_Quick
  Queries <- Q_Quick
  Gen = FALSE
INVARIANTS Refines Tight QueriesOk NewnessOk
CHECK_DEADLOCK FALSE
