-------------------------- MODULE MC_CompactCalendar --------------------------
(* All insertion sequences over a small universe of dates: the reachable set closes, so *)
(* the invariants hold for histories of every length over that universe. One action per *)
(* case of the coded insert. With Gen = TRUE one line per reachable state is printed,   *)
(* carrying every outgoing transition and every query answer, for replay on the code.   *)
EXTENDS CompactCalendar, Json

CONSTANTS Universe,     \* dates that may be inserted
          Queries,      \* dates used in queries (includes dates outside any window)
          Gen           \* print REPLAY lines

VARIABLES c, shadow
vars == <<c, shadow>>

Init == c = Empty /\ shadow = {}

Ins(dt) == /\ c' = Insert(c, dt)
           /\ shadow' = shadow \cup {dt}

InsertInWindow == \E dt \in Universe : InsertCase(c, dt) = "in_window" /\ Ins(dt)
InsertFirst    == \E dt \in Universe : InsertCase(c, dt) = "first_insert" /\ Ins(dt)
InsertFront    == \E dt \in Universe : InsertCase(c, dt) = "grow_front" /\ Ins(dt)
InsertBack     == \E dt \in Universe : InsertCase(c, dt) = "grow_back" /\ Ins(dt)

Next == InsertInWindow \/ InsertFirst \/ InsertFront \/ InsertBack
Spec == Init /\ [][Next]_vars

Refines     == AbsOf(c) = shadow
Tight       == WindowTight(c)
QueriesOk   == \A q \in Queries :
                 /\ Holds(c, q) <=> q \in shadow
                 /\ FirstAfterCoded(c, q) = FirstAfter(shadow, q)
NewnessOk   == \A dt \in Universe : InsertIsNew(c, dt) <=> dt \notin shadow

DateSeq(S) == LET RECURSIVE F(_)
                  F(T) == IF T = {} THEN <<>> ELSE LET m == MinDate(T) IN <<m>> \o F(T \ {m})
              IN F(S)

Line == [ set     |-> DateSeq(shadow),
          count   |-> Count(c),
          bytes   |-> ByteLen(c),
          inserts |-> DateSeq(Universe),
          is_new  |-> [i \in 1..Cardinality(Universe) |-> InsertIsNew(c, DateSeq(Universe)[i])],
          queries |-> DateSeq(Queries),
          holds   |-> [i \in 1..Cardinality(Queries) |-> Holds(c, DateSeq(Queries)[i])],
          first_after |-> [i \in 1..Cardinality(Queries) |-> FirstAfterCoded(c, DateSeq(Queries)[i])] ]

Emit == Gen => PrintT(<<"REPLAY", ToJson(Line)>>)

\* the quick universe; years -1, 0 (leap) and 2, month ends and the leap day
U_Quick == {<<-1, 1, 1>>, <<-1, 12, 31>>, <<0, 1, 1>>, <<0, 2, 29>>, <<0, 12, 31>>, <<2, 1, 31>>, <<2, 12, 1>>}
Q_Quick == U_Quick \cup {<<-3, 6, 15>>, <<-1, 6, 15>>, <<0, 2, 28>>, <<0, 3, 1>>, <<1, 6, 15>>, <<2, 1, 30>>, <<2, 12, 31>>, <<4, 1, 1>>}
U_Thorough == U_Quick \cup {<<-1, 1, 31>>, <<0, 1, 31>>, <<1, 2, 28>>, <<5, 1, 1>>, <<5, 12, 31>>, <<1, 12, 1>>}
Q_Thorough == U_Thorough \cup Q_Quick \cup {<<3, 1, 1>>, <<5, 6, 1>>, <<6, 1, 1>>, <<-2, 12, 31>>}
=============================================================================
