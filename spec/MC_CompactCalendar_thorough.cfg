SPECIFICATION Spec
CONSTANTS
  Universe <- U_Thorough
  Queries <- Q_Thorough
  Gen = FALSE
INVARIANTS Refines Tight QueriesOk NewnessOk
CHECK_DEADLOCK FALSE
