SPECIFICATION Spec
CONSTANTS
  MaxRules = 2
  Ops <- AllOps
  DayPatterns <- PatternsStd
  WrongBase = FALSE
  SpanShapes = {1, 2, 3, 4, 5, 6, 7}
INVARIANTS Agree FoldValid FoldComments
CHECK_DEADLOCK FALSE
