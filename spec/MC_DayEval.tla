------------------------------ MODULE MC_DayEval ------------------------------
(* Cross-check of the two formulations of the rule semantics (DESIGN.md 4.3): the fold   *)
(* M1 of DayEval.tla (shaped like the code) against a declarative reading written from   *)
(* the property text ("the last normal non-closed rule applying on the day is the base;  *)
(* additional and closed rules after it overlay; a fallback rule is considered only if   *)
(* nothing non-closed was left"). The machine appends one abstract rule per step, so TLC *)
(* visits every rule sequence up to MaxRules; rules use real AST records (weekday         *)
(* selectors for "matches today / yesterday", fixed spans incl. wrapping ones).           *)
EXTENDS DayEval

CONSTANTS MaxRules, Ops, SpanShapes, DayPatterns,
          WrongBase      \* non-vacuity: take the FIRST matching normal rule as the base (must disagree)

Today == DaysFromCivil(2024, 6, 4)           \* a Tuesday; yesterday is a Monday
NoCtx == [ph |-> {}, sh |-> {}, events |-> "default"]

AllNth == <<TRUE, TRUE, TRUE, TRUE, TRUE>>
Wd(a) == [t |-> "fixed", a |-> a, b |-> a, days |-> 0, nth |-> AllNth, nthr |-> AllNth]
\* day patterns: Monday only (yesterday), Tuesday only (today), both, neither
PatternsStd == {<<Wd(0)>>, <<Wd(1)>>, <<Wd(0), Wd(1)>>, <<Wd(2)>>}
\* for the soundness of is_constant: rules without any day selector are what makes it answer TRUE
PatternsConst == {<<>>, <<Wd(0)>>, <<Wd(1)>>}
Fx(m) == [t |-> "fixed", m |-> m]
Sp(s, e) == [s |-> Fx(s), e |-> Fx(e), open_end |-> FALSE, repeats |-> -1]
Shape(k) == CASE k = 1 -> <<Sp(0, 720)>>            \* morning
              [] k = 2 -> <<Sp(720, 1440)>>         \* afternoon
              [] k = 3 -> <<Sp(0, 1440)>>           \* whole day
              [] k = 4 -> <<Sp(1080, 360)>>         \* evening, wraps to 06:00
              [] k = 5 -> <<Sp(360, 1080)>>         \* middle of the day
              [] k = 6 -> <<Sp(1200, 1560)>>        \* 20:00-26:00
              [] OTHER -> <<Sp(600, 600)>>          \* 10:00-10:00: 24 hours, wraps (end == start)

Rule(op, kind, days, shape, name) ==
  [op |-> op, kind |-> kind, comments |-> <<name>>, year |-> <<>>, monthday |-> <<>>, week |-> <<>>,
   weekday |-> days, time |-> Shape(shape)]

VARIABLE rs
Init == rs = <<>>
AddRule == /\ Len(rs) < MaxRules
          /\ \E op \in (IF rs = <<>> THEN {"normal"} ELSE Ops), kind \in Kinds, days \in DayPatterns, sh \in SpanShapes :
                rs' = Append(rs, Rule(op, kind, days, sh, "c"))
Next == AddRule
Spec == Init /\ [][Next]_rs

-----------------------------------------------------------------------------
(* the declarative reading                                                               *)
Expr == [rules |-> rs]
Contribution(i) == RuleEval(rs[i], Today, NoCtx)
FirstFallback == IF \E i \in DOMAIN rs : rs[i].op = "fallback"
                 THEN CHOOSE i \in DOMAIN rs : rs[i].op = "fallback" /\ \A j \in 1..(i - 1) : rs[j].op # "fallback"
                 ELSE Len(rs) + 1
Main == 1..(FirstFallback - 1)
IsBase(i) == rs[i].op = "normal" /\ rs[i].kind # "closed" /\ Contribution(i).match
BaseIdx == IF \E i \in Main : IsBase(i) THEN CHOOSE i \in Main : IsBase(i) /\ \A j \in Main : IsBase(j) => (IF WrongBase THEN j >= i ELSE j <= i) ELSE 0

RECURSIVE Overlay(_, _, _)
Overlay(sch, i, hi) ==
  IF i > hi THEN sch
  ELSE Overlay(IF Contribution(i).some THEN Addition(sch, Contribution(i).v) ELSE sch, i + 1, hi)

MainSchedule == Overlay(IF BaseIdx = 0 THEN <<>> ELSE Contribution(BaseIdx).v, BaseIdx + 1, FirstFallback - 1)
MainCovered  == ~IsAlwaysClosed(MainSchedule)      \* spills from yesterday cover the day too

RECURSIVE Fallbacks(_, _, _)
Fallbacks(sch, covered, i) ==
  IF i > Len(rs) THEN sch
  ELSE IF rs[i].op # "fallback" THEN Fallbacks(sch, covered, i + 1)     \* (only reached when it does not contribute)
  ELSE IF covered THEN sch
  ELSE LET c == Contribution(i) IN Fallbacks(c.v, ~IsAlwaysClosed(c.v), i + 1)

DeclSchedule == Fallbacks(MainSchedule, MainCovered, FirstFallback)

SamePaint(a, b) == \A m \in Points(a) \cup Points(b) \cup {0} : m < DayEnd => KindAt(a, m) = KindAt(b, m)

\* wherever the semantics are pinned down, both formulations paint the same day
Agree == Det(Expr, Today, NoCtx) => SamePaint(DaySchedule(Expr, Today, NoCtx), DeclSchedule)
\* the fold always produces a valid schedule within the day, and a proper tiling
FoldValid == LET v == DaySchedule(Expr, Today, NoCtx) IN Valid(v) /\ WithinDay(v) /\ IsTilingOf(Tiling(v), v)
\* comments never come from elsewhere than the rules
FoldComments == AllComments(DaySchedule(Expr, Today, NoCtx)) \subseteq {"c"}
\* is_constant is sound: whenever the syntactic test says "constant", the fold paints the whole day
\* with the last rule's kind - unconditionally (the code's iterator relies on it in every corner)
ConstantSound == IsConstant(Expr) => ConstantDay(Expr, DayTiling(Expr, Today, NoCtx))
\* non-vacuity: the clause of the first repair of R1 (a fallback tail accepts any mix of closed rules and whole days of its kind
\* before it) is refuted: `24/7 open; 00:00-12:00 closed || 24/7 open` (R16)
IsConstantR1(expr) ==
  LET q    == expr.rules
      kind == ConstantKind(expr)
      stop == {i \in DOMAIN q : DayEmpty(q[i]) \/ ~Is0024(q[i]) \/ q[i].kind # kind}
  IN IF q = <<>> THEN TRUE
     ELSE IF stop = {} THEN kind = "closed"
     ELSE LET t == CHOOSE i \in stop : \A j \in stop : j <= i
          IN /\ q[t].op = "fallback" => \A j \in 1..(t - 1) : q[j].kind = "closed" \/ (q[j].kind = kind /\ Is0024(q[j]))
             /\ q[t].kind = kind /\ RuleConstant(q[t])
ConstantSoundR1 == IsConstantR1(Expr) => ConstantDay(Expr, DayTiling(Expr, Today, NoCtx))
\* ... and the test is not vacuous / not trivially FALSE: some 3-rule sequence with a fallback is constant
ConstantNeverWithFallback == ~(IsConstant(Expr) /\ \E i \in DOMAIN rs : rs[i].op = "fallback")
\* statistics: the determined share must not be empty (vacuity guard through a TLC counter)
AllOps == {"normal", "additional", "fallback"}
=============================================================================
