SPECIFICATION Spec
CONSTANTS
  MaxRules = 3
  Ops <- AllOps
  DayPatterns <- PatternsConst
  WrongBase = FALSE
  SpanShapes = {1, 3, 4}
INVARIANTS ConstantNeverWithFallback
CHECK_DEADLOCK FALSE
