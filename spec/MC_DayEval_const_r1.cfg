SPECIFICATION Spec
CONSTANTS
  MaxRules = 3
  Ops <- AllOps
  DayPatterns <- PatternsConst
  WrongBase = FALSE
  SpanShapes = {1, 3, 4}
INVARIANTS ConstantSoundR1
CHECK_DEADLOCK FALSE
