SPECIFICATION Spec
CONSTANTS
  MaxRules = 4
  Ops <- AllOps
  DayPatterns <- PatternsConst
  WrongBase = FALSE
  SpanShapes = {1, 3}
INVARIANTS ConstantSound
CHECK_DEADLOCK FALSE
