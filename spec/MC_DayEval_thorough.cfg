SPECIFICATION Spec
CONSTANTS
  MaxRules = 3
  Ops <- AllOps
  WrongBase = FALSE
  SpanShapes = {1, 3, 4, 6}
INVARIANTS Agree FoldValid FoldComments
CHECK_DEADLOCK FALSE
