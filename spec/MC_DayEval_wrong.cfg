SPECIFICATION Spec
CONSTANTS
  MaxRules = 2
  Ops <- AllOps
  DayPatterns <- PatternsStd
  WrongBase = TRUE
  SpanShapes = {1, 2, 3, 4, 5, 6}
INVARIANTS Agree FoldValid FoldComments
CHECK_DEADLOCK FALSE
