SPECIFICATION Spec
CONSTANTS
  DeltaM <- MC_DeltaM
  DeltaH <- MC_DeltaH
INVARIANTS Faithful NeverOutOfRange
CHECK_DEADLOCK FALSE
