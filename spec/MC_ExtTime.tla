------------------------------ MODULE MC_ExtTime ------------------------------
(* The ExtendedTime counter as a state machine: a value is built, then any sequence of  *)
(* add_minutes / add_hours is applied. A shadow integer carries the true sum; the       *)
(* invariant says the counter equals the sum while it stays in range and is None        *)
(* (absorbing: the Rust Option chain ends) as soon as the sum would leave 00:00..48:00. *)
EXTENDS ExtTime

CONSTANTS DeltaM, DeltaH          \* offsets explored

VARIABLES t, sum
vars == <<t, sum>>

Init == /\ t \in Times
        /\ sum = t

AddM(d) == /\ t # None
           /\ t' = AddMinutes(t, d)
           /\ sum' = sum + d

AddH(h) == /\ t # None
           /\ t' = AddHours(t, h)
           /\ sum' = sum + 60 * h

Next == (\E d \in DeltaM : AddM(d)) \/ (\E h \in DeltaH : AddH(h))

Spec == Init /\ [][Next]_vars

Faithful == IF t # None THEN t = sum /\ t \in Times ELSE sum \notin Times
NeverOutOfRange == t = None \/ t \in Times

MC_DeltaM == {-2881, -1441, -1440, -61, -1, 1, 59, 1440, 2880}
MC_DeltaH == {-49, -25, -1, 1, 24, 48}

ASSUME LawInverse /\ LawNewRange /\ LawAddInverse /\ LawHoursAreMinutes /\ LawClock
=============================================================================
