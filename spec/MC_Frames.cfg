
