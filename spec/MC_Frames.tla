------------------------------ MODULE MC_Frames ------------------------------
EXTENDS Frames, TLC
\* the four framed dimensions of the real paving; years on a window that contains both frame bounds' neighbourhoods is enough
\* for the arithmetic (the operators do not depend on the absolute values), the real bounds are used by Gen_Frames
ASSUME Cover(0, 6) /\ Proper(0, 6) /\ Back(0, 6)            \* weekdays
ASSUME Cover(1, 12) /\ Proper(1, 12) /\ Back(1, 12)         \* months
ASSUME Cover(1, 53) /\ Proper(1, 53) /\ Back(1, 53)         \* weeks
ASSUME Cover(1900, 1930) /\ Proper(1900, 1930) /\ Back(1900, 1930)
ASSUME PrintT(<<"FRAMES", "ok">>)
\* non-vacuity: the cyclic successor used by the week frame once wrapped at 52 (seeded change C07-1): with succ(52) = 1 the
\* range a..=52 would become [a, 1), which splits to [1, 1) + [a, End) and covers week 53 as well
WrongStrict(a, b) == Rng(a, IF b = 52 THEN 1 ELSE b + 1)
WrongCover == \A a \in 1..53, b \in 1..53, x \in 1..53 : InPieces(Split(WrongStrict(a, b), 1, 53), x) <=> WrapContains(a, b, x)
ASSUME ~WrongCover
=============================================================================
