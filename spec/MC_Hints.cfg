SPECIFICATION Spec
CONSTANTS
  Shortcut = "none"
  Lo <- LoDef
  Hi <- HiDef
  Stride = 72
  MaxRules = 0
  Wide = FALSE
  Late = 0
INVARIANTS YearSound MonthSound MonthYearSound WeekSound HolidaySound DateSound
CHECK_DEADLOCK FALSE
