------------------------------- MODULE MC_Hints -------------------------------
(* The transcribed hints satisfy the contract (Hints.tla):                                       *)
(*  part 1 (variable n walks a window of days): for every year / month / month-with-year / week  *)
(*    range of a bounded parameter set and for holiday selectors with offsets over a calendar,   *)
(*    the selector matches every day strictly between n and its hint exactly as it matches n;    *)
(*  part 2 (variable rs grows rule sequences, MC_Hints_expr.cfg): for every sequence of <= 2     *)
(*    rules over an alphabet mixing hinted selectors, whole-day / partial / midnight-passing     *)
(*    spans, kinds and operators, every day the expression-level hint lets the iterator skip is  *)
(*    one whole-day period of the kind the day it jumps from ends with.                          *)
(* Unsound variants (a hint one day / week / year too far) must be refuted: MC_Hints_nv.cfg.     *)
EXTENDS Hints, TLC

CONSTANTS Shortcut, Lo, Hi, Stride, MaxRules, Late,     \* Late = 1: non-vacuity, every hint is pushed one unit too far
          Wide                                 \* thorough tier: every day of Dec 20 .. Feb 10 and the end of the year as standing days
VARIABLES n, rs
vars == <<n, rs>>

\* sampled probe days strictly between n and h: every `stride`-th day and the last one
Probes(h, look, stride) ==
  LET top == Min2(h, n + look + 1)
  IN {n + 1 + k * stride : k \in 0..((top - n - 2) \div stride)} \cup {top - 1}
SoundS(h, look, stride, M(_)) == h = NONE \/ (h > n /\ \A d \in Probes(h, look, stride) : d > n => M(d) = M(n))

YearsP == {2019, 2020, 2023, 2024, 2026}
YR(a, b, s) == [a |-> a, b |-> b, step |-> s]
YearSound == \A a \in YearsP, b \in YearsP, s \in {1, 2, 3, 5} :
               LET r == YR(a, b, s)
                   h == YearHint(r, n)
               IN SoundS(IF h = NONE THEN h ELSE h + 366 * Late, 8000, 365, LAMBDA d : YearMatch(r, d))

MR(a, b, y) == [t |-> "month", a |-> a, b |-> b, year |-> y]
MonthSound == \A a \in 1..12, b \in 1..12 :
                LET r == MR(a, b, -1)
                    h == MonthHint(r, n)
                IN SoundS(IF h = DateEnd THEN h ELSE h + 31 * Late, 800, 14, LAMBDA d : MonthMatch(r, d))
MonthYearSound == \A a \in {1, 2, 6, 11, 12}, b \in {1, 2, 5, 12}, y \in {2021, 2024} :
                    LET r == MR(a, b, y)
                        h == MonthHint(r, n)
                    IN SoundS(IF h = DateEnd THEN h ELSE h + 31 * Late, 1200, 14, LAMBDA d : MonthMatch(r, d))

WeeksP == {1, 2, 9, 10, 26, 51, 52, 53}
WeekSound == \A a \in WeeksP, b \in WeeksP, s \in {1, 2, 3} :
               LET r == YR(a, b, s)
                   h == WeekHint(r, n)
               IN SoundS(IF h = NONE THEN h ELSE h + 7 * Late, 800, 7, LAMBDA d : WeekMatch(r, d))

\* a calendar with neighbours, a gap of one day, dates around the year end and far ahead
Cal == {Lo + 3, Lo + 4, Lo + 6, Lo + 360, Lo + 366, Lo + 367, Lo + 1500}
HCtx == [ph |-> Cal, sh |-> {Lo + 10, Lo + 11, Lo + 12}, events |-> "default"]
HolidaySound == \A k \in {"public", "school"}, off \in {-2, -1, 0, 1, 3} :
                  LET r == [t |-> "holiday", kind |-> k, days |-> off]
                      h == WeekdayHint(r, n, HCtx)
                  IN SoundS(IF h = DateEnd THEN h ELSE h + Late, 1600, 1, LAMBDA d : WeekdayMatch(r, d, HCtx))

\* date ranges: the matched set only changes at a projected start or the day after a projected end, so these days (and their
\* neighbours), for the years around n and the years the bounds are attached to, are the probes
Dt(year, month, day) == [t |-> "fixed", year |-> year, month |-> month, day |-> day]
Ea(year) == [t |-> "easter", year |-> year]
Bd(date, wsign, wday, days) == [date |-> date, wsign |-> wsign, wday |-> wday, days |-> days]
B0(date) == Bd(date, 0, 0, 0)
DR(b1, b2) == [t |-> "date", s |-> b1, e |-> b2]
DateRanges ==
  {DR(B0(Dt(-1, 12, 25)), B0(Dt(-1, 1, 5))), DR(B0(Dt(-1, 3, 1)), B0(Dt(-1, 3, 31))), DR(B0(Dt(-1, 1, 31)), B0(Dt(-1, 2, 29))),
   DR(B0(Dt(-1, 7, 14)), B0(Dt(-1, 7, 14))), DR(B0(Dt(-1, 2, 29)), B0(Dt(-1, 2, 29))), DR(B0(Dt(2024, 2, 29)), B0(Dt(2024, 2, 29))),
   DR(B0(Dt(-1, 4, 31)), B0(Dt(-1, 4, 31))), DR(B0(Ea(-1)), B0(Ea(-1))), DR(Bd(Ea(-1), 0, 0, -2), Bd(Ea(-1), 0, 0, 1)),
   DR(B0(Ea(-1)), B0(Dt(-1, 6, 1))), DR(B0(Dt(-1, 2, 21)), B0(Ea(-1))), DR(B0(Dt(2025, 2, 21)), B0(Ea(-1))),
   DR(B0(Dt(2040, 2, 21)), B0(Ea(-1))), DR(B0(Ea(2025)), B0(Dt(2025, 6, 1))), DR(B0(Ea(2040)), B0(Dt(2040, 6, 1))),
   DR(B0(Dt(2024, 3, 28)), B0(Dt(-1, 4, 16))), DR(B0(Dt(2024, 12, 20)), B0(Dt(2025, 1, 10))), DR(B0(Dt(2024, 12, 20)), B0(Dt(-1, 1, 10))),
   DR(B0(Dt(2040, 12, 20)), B0(Dt(-1, 1, 10))), DR(B0(Dt(2019, 9, 1)), B0(Dt(2019, 12, 31))), DR(B0(Dt(2024, 3, 1)), B0(Dt(-1, 2, 29))),
   DR(Bd(Dt(-1, 5, 1), 1, 0, 0), Bd(Dt(-1, 9, 30), -1, 4, 0)), DR(Bd(Dt(-1, 1, 1), 0, 0, 2), Bd(Dt(-1, 1, 1), 0, 0, 9)),
   DR(B0(Dt(-1, 12, 31)), B0(Dt(-1, 12, 31))), DR(B0(Dt(-1, 1, 1)), B0(Dt(-1, 12, 31))), DR(B0(Dt(2024, 1, 1)), B0(Dt(9999, 12, 31))),
   DR(B0(Dt(-1, 9, 1)), B0(Dt(-1, 12, 31))), DR(B0(Dt(2025, 2, 21)), B0(Ea(2030)))}
AnchorYears(r) == (IF HasYear(r.s.date) THEN {r.s.date.year, r.s.date.year + 1} ELSE {})
                  \cup (IF HasYear(r.e.date) THEN {r.e.date.year, r.e.date.year + 1} ELSE {})
DateProbes(r) ==
  LET Ys == ((YearOf(n) - 1)..(YearOf(n) + 12)) \cup AnchorYears(r)
      bs == ({BoundAt(r.s, Y, TRUE) : Y \in Ys} \cup {BoundAt(r.e, Y, FALSE) : Y \in Ys}) \ {NoDate}
  IN UNION {{b - 1, b, b + 1} : b \in bs} \cup {n + 1}
DateDays == {Lo + 3 * k : k \in 0..400} \cup {DaysFromCivil(2010, 6, 1), DaysFromCivil(2019, 12, 31), DaysFromCivil(2030, 3, 1)}
DateSound == (n \in DateDays) =>
               \A r \in DateRanges :
                  LET h0 == DateHint(r, n)
                      h  == IF h0 = NONE \/ h0 >= DateEnd THEN h0 ELSE h0 + Late
                  IN h = NONE \/ (h > n /\ \A d \in DateProbes(r) :
                                     (n < d /\ d < h /\ d < DateEnd /\ DateDet(r, d) /\ DateDet(r, n)) => DateMatch(r, d) = DateMatch(r, n))
\* non-vacuity of the R21 clause: without the years the bounds are attached to, the hint from 2024 for a range of 2040 is unsound
DateHintNear(r) ==
  LET y == YearOf(n)
      years == SortedSeq((y - 1)..(y + 10))
  IN NextFromBounds(n, ProjAll(r.s, years, TRUE), ProjAll(r.e, years, FALSE))
DateSoundR21 == (n \in DateDays) =>
                  LET r == DR(B0(Dt(2040, 2, 21)), B0(Ea(-1)))
                      h == DateHintNear(r)
                  IN h > n /\ \A d \in DateProbes(r) : (n < d /\ d < h /\ d < DateEnd) => DateMatch(r, d) = DateMatch(r, n)

-----------------------------------------------------------------------------
\* part 2: expressions
AllNth == <<TRUE, TRUE, TRUE, TRUE, TRUE>>
Fx(m) == [t |-> "fixed", m |-> m]
Sp(s, e) == [s |-> Fx(s), e |-> Fx(e), open_end |-> FALSE, repeats |-> -1]
\* whole day, inside the day, passing midnight written the three ways the grammar allows: end < start, end == start (24 hours), end > 24:00
Times == {<<Sp(0, 1440)>>, <<Sp(0, 720)>>, <<Sp(1080, 360)>>, <<Sp(600, 600)>>, <<Sp(1200, 1560)>>}
Y0 == 2024
ECtx == [ph |-> {DaysFromCivil(Y0, 1, 1), DaysFromCivil(Y0, 1, 6)}, sh |-> {}, events |-> "default"]
\* <<year, monthday, week, weekday>>
DaySels == {<<<<>>, <<>>, <<>>, <<>>>>,
            <<<<>>, <<>>, <<YR(1, 2, 1)>>, <<>>>>,
            <<<<>>, <<MR(1, 1, -1)>>, <<>>, <<>>>>,
            <<<<YR(Y0, Y0, 1)>>, <<>>, <<>>, <<>>>>,
            <<<<>>, <<>>, <<>>, <<[t |-> "holiday", kind |-> "public", days |-> 0]>>>>,
            <<<<>>, <<MR(12, 1, -1)>>, <<YR(1, 1, 1)>>, <<>>>>}
Rule(op, kind, ds, tm) == [op |-> op, kind |-> kind, comments |-> <<>>, year |-> ds[1], monthday |-> ds[2], week |-> ds[3],
                           weekday |-> ds[4], time |-> tm]
Expr == [rules |-> rs]
\* the days the iterator may stand on: around the year end, the holidays, the end of week 2 and of January
DaysNarrow == {DaysFromCivil(Y0 - 1, 12, 30), DaysFromCivil(Y0 - 1, 12, 31), DaysFromCivil(Y0, 1, 1), DaysFromCivil(Y0, 1, 2),
          DaysFromCivil(Y0, 1, 5), DaysFromCivil(Y0, 1, 6), DaysFromCivil(Y0, 1, 7), DaysFromCivil(Y0, 1, 14),
          DaysFromCivil(Y0, 1, 15), DaysFromCivil(Y0, 1, 31), DaysFromCivil(Y0, 2, 1), DaysFromCivil(Y0, 12, 31)}
DaysP == IF Wide THEN (DaysFromCivil(Y0 - 1, 12, 20)..DaysFromCivil(Y0, 2, 10)) \cup (DaysFromCivil(Y0, 12, 20)..DaysFromCivil(Y0 + 1, 1, 3))
         ELSE DaysNarrow
\* A tempting optimisation of the spill test (seeded change C02-7): ask about yesterday only for rules with a span that can pass
\* midnight. Written with the evaluator's own wrap condition (end <= start, or end after 24:00: "le") it is sound; written
\* "end < start" ("lt") the 24-hour span 10:00-10:00 is forgotten and TLC refutes the contract. "none" is the code.
PassesMidnight(sp) == IF Shortcut = "lt" THEN sp.e.m < sp.s.m \/ sp.e.m > 1440 ELSE sp.e.m <= sp.s.m \/ sp.e.m > 1440
RuleHintShort(rule, dd, ctx) ==
  IF ImmutableFullDay(rule)
     \/ ~(DayMatch(rule, dd, ctx) \/ ((\E i \in DOMAIN rule.time : PassesMidnight(rule.time[i])) /\ DayMatch(rule, dd - 1, ctx)))
  THEN DaySelHint(rule, dd, ctx) ELSE dd + 1
ExprHintShort(expr, dd, ctx) ==
  IF dd < DateStart THEN DateStart
  ELSE IF IsConstant(expr) THEN DateEnd
  ELSE MinOfSeq([i \in DOMAIN expr.rules |-> RuleHintShort(expr.rules[i], dd, ctx)])
ExprHintSound == \A d0 \in DaysP :
                   LET h == IF Shortcut = "none" THEN ExprHint(Expr, d0, ECtx) ELSE ExprHintShort(Expr, d0, ECtx)
                   IN h = NONE \/ (h > d0 /\ \A d \in (d0 + 1)..(Min2(h + Late, d0 + 40) - 1) : SkippedOk(Expr, d0, d, ECtx))

Init == n \in {Lo + k * Stride : k \in 0..((Hi - Lo) \div Stride)} /\ rs = <<>>
Walk == n < Hi /\ (n + 1 - Lo) % Stride # 0 /\ n' = n + 1 /\ UNCHANGED rs
AddRule == /\ Len(rs) < MaxRules
           /\ \E op \in (IF rs = <<>> THEN {"normal"} ELSE {"normal", "additional", "fallback"}), kind \in {"open", "closed"},
                 ds \in DaySels, tm \in Times : rs' = Append(rs, Rule(op, kind, ds, tm))
           /\ UNCHANGED n
Next == (MaxRules = 0 /\ Walk) \/ AddRule
Spec == Init /\ [][Next]_vars

LoWide == 17897     \* 2019-01-01
HiWide == 23010     \* 2032-12-31 (all 14 calendar types)
LoDef == 19346      \* 2022-12-20
HiDef == 20468      \* 2026-01-15
=============================================================================
