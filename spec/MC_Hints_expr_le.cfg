SPECIFICATION Spec
CONSTANTS
  Shortcut = "le"
  Lo <- LoDef
  Hi <- LoDef
  Stride = 1
  MaxRules = 2
  Wide = FALSE
  Late = 0
INVARIANTS ExprHintSound
CHECK_DEADLOCK FALSE
