SPECIFICATION Spec
CONSTANTS
  Shortcut = "none"
  Lo <- LoDef
  Hi <- LoDef
  Stride = 1
  MaxRules = 2
  Wide = FALSE
  Late = 1
INVARIANTS ExprHintSound
CHECK_DEADLOCK FALSE
