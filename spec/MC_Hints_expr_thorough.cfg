SPECIFICATION Spec
CONSTANTS
  Shortcut = "none"
  Lo <- LoDef
  Hi <- LoDef
  Stride = 1
  MaxRules = 2
  Wide = TRUE
  Late = 0
INVARIANTS ExprHintSound
CHECK_DEADLOCK FALSE
