SPECIFICATION Spec
CONSTANTS
  Lo <- LoDef
  Hi <- HiDef
  Stride = 72
  MaxRules = 0
  Late = 1
INVARIANTS YearSound MonthSound MonthYearSound WeekSound HolidaySound
CHECK_DEADLOCK FALSE
