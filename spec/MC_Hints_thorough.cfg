SPECIFICATION Spec
CONSTANTS
  Shortcut = "none"
  Lo <- LoWide
  Hi <- HiWide
  Stride = 320
  MaxRules = 0
  Wide = FALSE
  Late = 0
INVARIANTS YearSound MonthSound MonthYearSound WeekSound HolidaySound DateSound
CHECK_DEADLOCK FALSE
