SPECIFICATION Spec
CONSTANTS
  N = 3
  DStart = 1
  DEnd = 4
  Secs = {0, 30, 43200}
  Bounds = {0}
  ContinueAfterInfinite = FALSE
  Unsound = FALSE
INVARIANTS StreamOk RangeOk FirstOk BoundOk Progress
CHECK_DEADLOCK FALSE
