------------------------------ MODULE MC_Iterator ------------------------------
(* Machine M3: TimeDomainIterator + the iter_range wrapper, step for step as coded, over *)
(* a tiny calendar: days 0..N+1, supported days 1..N (day 0 is "before 1900", day N+1 is *)
(* "10000-01-01"). Every assignment of day tilings, every window on the instant grid and *)
(* every SOUND choice of the day-jump hint is explored; at termination the emitted list  *)
(* must be exactly the declarative stream (C02), within the supported range (C08), its   *)
(* first interval gives state / next_change (C03), and with an interval-size bound the   *)
(* first interval obeys the approximation contract (C16).                                *)
(*   Unsound = TRUE lets the hint skip anything: TLC must then find a counterexample.    *)
EXTENDS Iterator

CONSTANTS N,            \* number of supported days
          Secs,         \* seconds of day used for window bounds (0, a sub-minute one, noon)
          Bounds,       \* interval-size bounds explored, in seconds (0 = no bound)
          Unsound,
          ContinueAfterInfinite   \* TRUE = behaviour of the pinned tree (non-vacuity of BoundPartition)

ASSUME DStart = 1 /\ DEnd = N + 1

Tile(s, e, k) == [s |-> s, e |-> e, k |-> k, c |-> {}]
\* day shapes over two half-day slots, kinds open / closed / unknown
Shapes == {<<Tile(0, 1440, "open")>>, <<Tile(0, 1440, "closed")>>, <<Tile(0, 1440, "unknown")>>,
           <<Tile(0, 720, "open"), Tile(720, 1440, "closed")>>, <<Tile(0, 720, "closed"), Tile(720, 1440, "open")>>,
           <<Tile(0, 720, "unknown"), Tile(720, 1440, "open")>>}
Instants == {<<d, s>> : d \in 0..(N + 2), s \in Secs}

VARIABLES Sched, from, to, B,          \* chosen initially, never changed
          pc, curDate, rem, cur, startDate, out
vars == <<Sched, from, to, B, pc, curDate, rem, cur, startDate, out>>
View == <<Sched, from, to, B, pc, curDate, rem, cur, startDate, out>>

Diff(a, b) == (a[1] - b[1]) * 86400 + a[2] - b[2]
F == IMin(from, EndInstant)           \* iter_range_naive: both bounds clamped to DATE_END
T == IMin(to, EndInstant)
LastKind(til) == til[Len(til)].k

\* TimeDomainIterator::new
Positioned(til, sec) == LET minute == sec \div 60
                            RECURSIVE Drop(_)
                            Drop(q) == IF q # <<>> /\ ~(q[1].s <= minute /\ minute < q[1].e) THEN Drop(Tail(q)) ELSE q
                        IN Drop(til)

Init == /\ Sched \in [1..N -> Shapes]
        /\ from \in Instants /\ to \in Instants
        /\ B \in Bounds
        /\ pc = "idle"
        /\ curDate = F[1]
        /\ rem = IF ~ILt(F, T) THEN <<>> ELSE Positioned(TilingOf(Sched, F[1]), F[2])
        /\ cur = <<>> /\ startDate = 0 /\ out = <<>>

\* next(): nothing left
Finish == /\ pc = "idle" /\ rem = <<>>
          /\ pc' = "done"
          /\ UNCHANGED <<Sched, from, to, B, curDate, rem, cur, startDate, out>>

\* next(): pick the current tile
Begin == /\ pc = "idle" /\ rem # <<>>
         /\ cur' = rem[1] /\ startDate' = curDate /\ pc' = "consume"
         /\ UNCHANGED <<Sched, from, to, B, curDate, rem, out>>

\* consume_until_next_kind: one iteration of the while loop
Consume == /\ pc = "consume"
           /\ IF rem # <<>> /\ rem[1].k = cur.k
              THEN IF B # 0 /\ (curDate - startDate) * 86400 > B + 86400
                   THEN pc' = "emit" /\ UNCHANGED rem                      \* bound exit
                   ELSE /\ rem' = Tail(rem)
                        /\ pc' = IF Tail(rem) = <<>> THEN "jump" ELSE "consume"
              ELSE pc' = "emit" /\ UNCHANGED rem
           /\ UNCHANGED <<Sched, from, to, B, curDate, cur, startDate, out>>

\* the day is exhausted: jump to the hinted day. The hint is any later day such that every
\* skipped day is one full-day period of the kind the current day ends with.
SoundHint(h) == \A d \in (curDate + 1)..(h - 1) :
                   LET til == TilingOf(Sched, d) IN Len(til) = 1 /\ til[1].k = LastKind(TilingOf(Sched, curDate))
Jump == /\ pc = "jump"
        /\ \E h \in (curDate + 1)..(N + 3) :
              /\ Unsound \/ SoundHint(h)
              /\ curDate' = h
              /\ rem' = IF h <= T[1] /\ h < DEnd THEN TilingOf(Sched, h) ELSE <<>>
        /\ pc' = "consume"
        /\ UNCHANGED <<Sched, from, to, B, cur, startDate, out>>

\* next(): build the interval
Emit == /\ pc = "emit"
        /\ LET start == <<startDate, 60 * cur.s>>
               endT  == IF rem # <<>> THEN 60 * rem[1].s ELSE 0
               end   == IMin(T, <<curDate, endT>>)
               iv    == IF B # 0 /\ Diff(end, start) > B
                        THEN [a |-> start, b |-> EndInstant, k |-> cur.k]
                        ELSE [a |-> start, b |-> end, k |-> cur.k]
               infinite == B # 0 /\ Diff(end, start) > B
           IN /\ out' = Append(out, iv)
              \* an interval considered infinite ends the stream (R22: the pinned tree went on from where it had given up)
              /\ rem' = IF infinite /\ ~ContinueAfterInfinite THEN <<>> ELSE rem
        /\ pc' = "idle"
        /\ UNCHANGED <<Sched, from, to, B, curDate, cur, startDate>>

Next == Finish \/ Begin \/ Consume \/ Jump \/ Emit
Spec == Init /\ [][Next]_vars

\* iter_range_naive's take_while + clipping
RECURSIVE Wrap(_)
Wrap(ivs) == IF ivs = <<>> \/ ~ILt(ivs[1].a, T) THEN <<>>
             ELSE <<[ivs[1] EXCEPT !.a = IMax(@, F), !.b = IMin(@, T)]>> \o Wrap(Tail(ivs))
Result == Wrap(out)

-----------------------------------------------------------------------------
\* C02 + C08 (no bound): the result is exactly the declarative stream
StreamOk == (pc = "done" /\ B = 0) => IsStreamOf(Result, Sched, from, to)
\* C08: nothing before the requested start, nothing after min(requested end, END); closed outside
RangeOk == /\ \A i \in DOMAIN Result : ILe(F, Result[i].a) /\ ILe(Result[i].b, T)
           /\ (pc = "done" /\ B = 0) => \A i \in DOMAIN Result :
                 (Result[i].b[1] <= DStart /\ ILe(Result[i].b, <<DStart, 0>>)) => Result[i].k = "closed"
\* C03: state = first interval's kind = pointwise kind; next_change = first interval's end, none from END on
FirstOk == (pc = "done" /\ B = 0 /\ to = <<N + 2, 0>> /\ ILt(from, EndInstant)) =>
              /\ Result # <<>>
              /\ Result[1].k = KindAtInstant(Sched, from)
              /\ (IF ILt(Result[1].b, EndInstant) THEN Result[1].b ELSE <<>>) = NextChange(Sched, from)
\* C16: with a bound B, next_change (= first interval end, none if >= END) is exact or none;
\* exact whenever the exact change is at most B - 24h away, none whenever it is more than B away
BoundOk == (pc = "done" /\ B # 0 /\ to = <<N + 2, 0>> /\ ILt(from, EndInstant)) =>
              LET got   == IF Result # <<>> /\ ILt(Result[1].b, EndInstant) THEN Result[1].b ELSE <<>>
                  exact == NextChange(Sched, from)
              IN /\ Result # <<>> /\ Result[1].k = KindAtInstant(Sched, from)
                 /\ got \in {exact, <<>>}
                 /\ (exact # <<>> /\ Diff(exact, from) <= B - 86400) => got = exact
                 /\ (exact # <<>> /\ Diff(exact, from) > B) => got = <<>>
\* C02 / C08 under a bound: whatever is approximated, the reported intervals still partition [from, min(to, END))
BoundPartition == (pc = "done" /\ B # 0) =>
                    IF ~ILt(F, T) THEN Result = <<>>
                    ELSE /\ Result # <<>> /\ Result[1].a = F /\ Result[Len(Result)].b = T
                         /\ \A i \in DOMAIN Result : ILt(Result[i].a, Result[i].b)
                         /\ \A i \in 1..(Len(Result) - 1) : Result[i].b = Result[i + 1].a
\* the machine always terminates within the calendar (no run-away date)
Progress == curDate <= N + 3

-----------------------------------------------------------------------------
(* Termination of next() / of the whole stream (C04's "every call returns", at the level of the design):                  *)
(*  - as a safety property: a variant function that every step decreases (lexicographic: days left, tiles left of the     *)
(*    current day, position in the loop), so no behaviour of the machine is infinite whatever the (sound or unsound) hint; *)
(*  - as a liveness property under weak fairness (MC_Iterator_live.cfg): <>(pc = "done").                                  *)
Eats == rem # <<>> /\ cur # <<>> /\ rem[1].k = cur.k
BoundExit == B # 0 /\ (curDate - startDate) * 86400 > B + 86400
PcRank == CASE pc = "done" -> 0
            [] pc = "consume" /\ Eats /\ ~BoundExit -> 1
            [] pc = "idle" -> 2
            [] pc = "emit" -> 3
            [] pc = "consume" /\ ~Eats -> 4
            [] pc = "consume" /\ Eats /\ BoundExit -> 5
            [] OTHER -> 6
Measure == ((N + 4 - curDate) * 3 + Len(rem)) * 7 + PcRank
Decreases == [][Measure' < Measure /\ Measure' >= 0]_vars
\* non-vacuity: without the loop position the variant does not decrease on every step
DecreasesCoarse == [][(N + 4 - curDate) * 3 + Len(rem) > (N + 4 - curDate') * 3 + Len(rem')]_vars
FairSpec == Spec /\ WF_vars(Next)
Terminates == <>(pc = "done")
=============================================================================
