SPECIFICATION Spec
CONSTANTS
  N = 4
  DStart = 1
  DEnd = 5
  Secs = {0, 43200}
  Bounds = {86400, 172800}
  Unsound = FALSE
INVARIANTS StreamOk RangeOk FirstOk BoundOk Progress
CHECK_DEADLOCK FALSE
