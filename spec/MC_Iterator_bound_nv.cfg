SPECIFICATION Spec
CONSTANTS
  N = 3
  DStart = 1
  DEnd = 4
  Secs = {0, 43200}
  Bounds = {86400, 172800}
  ContinueAfterInfinite = TRUE
  Unsound = FALSE
INVARIANTS BoundPartition
CHECK_DEADLOCK FALSE
