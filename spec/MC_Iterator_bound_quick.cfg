SPECIFICATION Spec
CONSTANTS
  N = 3
  DStart = 1
  DEnd = 4
  Secs = {0, 43200}
  Bounds = {86400, 172800}
  ContinueAfterInfinite = FALSE
  Unsound = FALSE
INVARIANTS StreamOk RangeOk FirstOk BoundOk Progress BoundPartition
CHECK_DEADLOCK FALSE
