SPECIFICATION FairSpec
CONSTANTS
  N = 2
  DStart = 1
  DEnd = 3
  Secs = {0, 43200}
  Bounds = {0, 86400}
  ContinueAfterInfinite = FALSE
  Unsound = FALSE
PROPERTIES Terminates Decreases
CHECK_DEADLOCK FALSE
