SPECIFICATION Spec
CONSTANTS
  N = 2
  DStart = 1
  DEnd = 3
  Secs = {0, 43200}
  Bounds = {0}
  ContinueAfterInfinite = FALSE
  Unsound = FALSE
PROPERTIES DecreasesCoarse
CHECK_DEADLOCK FALSE
