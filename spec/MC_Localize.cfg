SPECIFICATION Spec
CONSTANTS
  Step = 1
  Horizon = 22
  MaxTrans = 2
  MaxJump = 3
INVARIANTS ShowsWallClock LatestChosen GapSteps Monotone RoundTrip NaiveTotal
CHECK_DEADLOCK FALSE
