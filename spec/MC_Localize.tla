------------------------------ MODULE MC_Localize ------------------------------
(* Every zone table with up to MaxTrans transitions of size +-1..+-MaxJump on a timeline  *)
(* 0..Horizon (scaled down: one tick = one minute, Step = 1): folds, gaps, several         *)
(* transitions close to each other. Checked for every wall-clock time of the timeline:     *)
(*  - the result of Datetime shows wall-clock time n whenever n exists, the first existing *)
(*    stepped time after n otherwise; it is the latest such instant                        *)
(*  - Datetime is monotone: interval bounds mapped back never go backwards                 *)
(*  - evaluating through the zone = evaluating on the wall clock (trivially, by Naive)     *)
EXTENDS Localize, TLC

CONSTANTS Horizon, MaxTrans, MaxJump

VARIABLES tab
Offs == (0 - MaxJump)..MaxJump
Init == tab = <<[from |-> -1000, off |-> 0]>>
AddTransition == /\ Len(tab) <= MaxTrans
                 /\ \E f \in 1..Horizon, o \in Offs :
                       \* transitions are further apart than the wall-clock jumps they cause (true of IANA data, and
                       \* checked on every table the harness logs); without it Datetime is not monotone (TLC shows it)
                       /\ f > tab[Len(tab)].from + 2 * MaxJump /\ o # tab[Len(tab)].off
                       /\ tab' = Append(tab, [from |-> f, off |-> o])
Next == AddTransition
Spec == Init /\ [][Next]_tab

Wall == (0 - MaxJump)..(Horizon + MaxJump)
ShowsWallClock == \A n \in Wall : Exists(tab, n) => Naive(tab, Datetime(tab, n)) = n
LatestChosen   == \A n \in Wall : Exists(tab, n) => \A i \in Candidates(tab, n) : i <= Datetime(tab, n)
GapSteps       == \A n \in Wall : ~Exists(tab, n) =>
                     \E k \in 1..(2 * MaxJump + 1) :
                        /\ Exists(tab, n + k) /\ \A j \in 0..(k - 1) : ~Exists(tab, n + j)
                        /\ Datetime(tab, n) = Datetime(tab, n + k)
Monotone       == \A a \in Wall, b \in Wall : a <= b => Datetime(tab, a) <= Datetime(tab, b)
RoundTrip      == \A i \in 0..Horizon : Datetime(tab, Naive(tab, i)) >= i       \* (later occurrence on a fold)
NaiveTotal     == \A i \in (0 - 5)..(Horizon + 5) : Naive(tab, i) = i + OffAt(tab, i)
=============================================================================
