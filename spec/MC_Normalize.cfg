SPECIFICATION Spec
CONSTANTS
  MaxRules = 2
  Ops <- AllOps
  KindsC <- AllKinds
  CommentSets <- CS2
  TimeRanges <- TR
  DayRanges <- DR
  Gen = FALSE
  Coded = FALSE
INVARIANTS SameMeaning Idempotent WellFormed CommentsKept
CHECK_DEADLOCK FALSE
