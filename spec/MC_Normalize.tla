------------------------------ MODULE MC_Normalize ------------------------------
(* Every sequence of up to MaxRules canonical rules over a tiny 2-D domain (time slots x  *)
(* days) is normalised by the paving model; the normal form must mean the same (C07) and  *)
(* normalising it again must change nothing (C13). The meaning of a rule sequence is the  *)
(* rule fold of DayEval restricted to canonical rules (no spills): a normal non-closed    *)
(* rule replaces the day, additional and closed rules overlay.                            *)
(*   Coded = TRUE uses the is_val of the pinned tree: TLC must find a counterexample (R5). *)
EXTENDS Normalize, Json

CONSTANTS MaxRules, Ops, KindsC, CommentSets, TimeRanges, DayRanges, Coded,
          Gen      \* print one REPLAY line per rule sequence: its sentence and the model's normal form

Slots == 0..1                 \* time slots [0,1) [1,2)
Days  == 0..2
TimeBounds == Rg(0, 2)
Depth == 2

VARIABLE rs
Init == rs = <<>>
AddRule == /\ Len(rs) < MaxRules
           /\ \E op \in (IF rs = <<>> THEN {"normal"} ELSE Ops), k \in KindsC, c \in CommentSets, t \in TimeRanges, d \in DayRanges :
                 rs' = Append(rs, [op |-> op, kind |-> k, c |-> c, sel |-> <<t, d>>])
Next == AddRule
Spec == Init /\ [][Next]_rs

InRanges(ranges, x) == \E i \in DOMAIN ranges : ranges[i].s <= x /\ x < ranges[i].e
\* kind at (slot t, day d) according to the rule fold
RECURSIVE FoldKind(_, _, _, _, _)
FoldKind(rules, i, t, d, cur) ==      \* cur: function slot -> kind for day d so far
  IF i > Len(rules) THEN cur[t]
  ELSE LET r == rules[i]
           m == InRanges(r.sel[2], d)
           nxt == IF ~m THEN cur
                  ELSE IF r.op = "normal" /\ r.kind # "closed"
                       THEN [s \in Slots |-> IF InRanges(r.sel[1], s) THEN r.kind ELSE "closed"]
                       ELSE [s \in Slots |-> IF InRanges(r.sel[1], s) THEN r.kind ELSE cur[s]]
       IN FoldKind(rules, i + 1, t, d, nxt)
KindOf(rules, t, d) == FoldKind(rules, 1, t, d, [s \in Slots |-> "closed"])

N1 == NormalizeRules(rs, Depth, TimeBounds, Coded)
N2 == NormalizeRules(N1, Depth, TimeBounds, Coded)

SameMeaning == \A t \in Slots, d \in Days : KindOf(N1, t, d) = KindOf(rs, t, d)
Idempotent  == N2 = N1
\* emitted rules are well formed: non-empty proper ranges within the bounds, first rule normal
WellFormed  == \A i \in DOMAIN N1 :
                  /\ N1[i].sel[1] # <<>> /\ N1[i].sel[2] # <<>>
                  /\ \A j \in DOMAIN N1[i].sel[1] : N1[i].sel[1][j].s < N1[i].sel[1][j].e
                  /\ \A j \in DOMAIN N1[i].sel[2] : N1[i].sel[2][j].s < N1[i].sel[2][j].e
                  /\ (i = 1 => N1[i].op = "normal")
\* comments of the normal form come from the rules
CommentsKept == \A i \in DOMAIN N1 : N1[i].c \subseteq UNION {rs[j].c : j \in DOMAIN rs}

\* --- rendering as opening_hours sentences: slots are half days, days are Mo Tu We ---------
DayName(d) == <<"Mo", "Tu", "We">>[d + 1]
RECURSIVE JoinS(_, _)
JoinS(q, sep) == IF q = <<>> THEN "" ELSE IF Len(q) = 1 THEN q[1] ELSE q[1] \o sep \o JoinS(Tail(q), sep)
ShowDayRange(r) == IF r.e = r.s + 1 THEN DayName(r.s) ELSE DayName(r.s) \o "-" \o DayName(r.e - 1)
ShowTimeRange(r) == (IF r.s = 0 THEN "00:00" ELSE "12:00") \o "-" \o (IF r.e = 1 THEN "12:00" ELSE "24:00")
ShowRuleN(r) ==
  LET days  == JoinS([i \in DOMAIN r.sel[2] |-> ShowDayRange(r.sel[2][i])], ",")
      times == IF r.sel[1] = <<Rg(0, 2)>> THEN "" ELSE JoinS([i \in DOMAIN r.sel[1] |-> ShowTimeRange(r.sel[1][i])], ",")
      kind  == IF r.kind = "open" THEN "" ELSE r.kind
      cm    == IF r.c = {} THEN "" ELSE "\"a\""
  IN days \o (IF times = "" THEN "" ELSE " " \o times) \o (IF kind = "" THEN "" ELSE " " \o kind) \o (IF cm = "" THEN "" ELSE " " \o cm)
RECURSIVE ShowRulesN(_, _)
ShowRulesN(rules, i) == IF i > Len(rules) THEN ""
                        ELSE (IF i = 1 THEN "" ELSE IF rules[i].op = "normal" THEN " ; " ELSE ", ") \o ShowRuleN(rules[i]) \o ShowRulesN(rules, i + 1)
ShowN(rules) == IF rules = <<>> THEN "closed" ELSE ShowRulesN(rules, 1)
EmitLine == (Gen /\ rs # <<>>) => PrintT(<<"REPLAY", ToJson([text |-> ShowN(rs), normal |-> ShowN(N1), nrules |-> Len(N1)])>>)

AllOps == {"normal", "additional"}
AllKinds == {"open", "closed", "unknown"}
TR == {<<Rg(0, 1)>>, <<Rg(1, 2)>>, <<Rg(0, 2)>>}
DR == {<<Rg(0, 1)>>, <<Rg(1, 2)>>, <<Rg(2, 3)>>, <<Rg(0, 2)>>, <<Rg(1, 3)>>, <<Rg(0, 3)>>, <<Rg(0, 1), Rg(2, 3)>>}
DRsmall == {<<Rg(0, 1)>>, <<Rg(1, 3)>>, <<Rg(0, 3)>>, <<Rg(0, 1), Rg(2, 3)>>}
CS2 == {{}, {"a"}}
CS1 == {{}}
=============================================================================
