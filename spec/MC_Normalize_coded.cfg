SPECIFICATION Spec
CONSTANTS
  MaxRules = 2
  Ops <- AllOps
  KindsC <- AllKinds
  CommentSets <- CS1
  TimeRanges <- TR
  DayRanges <- DR
  Gen = FALSE
  Coded = TRUE
INVARIANTS SameMeaning Idempotent WellFormed CommentsKept
CHECK_DEADLOCK FALSE
