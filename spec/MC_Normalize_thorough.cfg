SPECIFICATION Spec
CONSTANTS
  MaxRules = 3
  Ops <- AllOps
  KindsC <- AllKinds
  CommentSets <- CS1
  TimeRanges <- TR
  DayRanges <- DRsmall
  Gen = FALSE
  Coded = FALSE
INVARIANTS SameMeaning Idempotent WellFormed CommentsKept
CHECK_DEADLOCK FALSE
