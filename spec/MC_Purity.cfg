SPECIFICATION Spec
CONSTANTS
  Threads <- T
  Statics <- S
  Calls <- C
  Uses <- U
  Program <- P
INVARIANTS InitOnce NoPartialRead AllAnswered
PROPERTY Termination
CHECK_DEADLOCK FALSE
