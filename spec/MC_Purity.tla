-------------------------------- MODULE MC_Purity --------------------------------
EXTENDS Purity
T == {"t1", "t2", "t3"}
S == {"db_public", "boundaries", "tz_finder"}
C == {"holidays", "from_coords", "plain"}
U == [c \in C |-> CASE c = "holidays" -> {"db_public"} [] c = "from_coords" -> {"db_public", "boundaries", "tz_finder"} [] OTHER -> {}]
P == [t \in T |-> CASE t = "t1" -> <<"holidays", "plain">> [] t = "t2" -> <<"from_coords", "holidays">> [] OTHER -> <<"plain", "from_coords">>]
=============================================================================
