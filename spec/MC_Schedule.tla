------------------------------ MODULE MC_Schedule ------------------------------
(* The schedule algebra as a state machine over a small time grid.                       *)
(*                                                                                       *)
(*   Inductive = TRUE : the current schedule starts as ANY valid schedule over the grid  *)
(*     and is combined with ANY valid operand: the invariants are shown inductive, so    *)
(*     they hold after every finite sequence (and every tree) of from_ranges/addition.   *)
(*   Inductive = FALSE: start from the empty schedule, operands are the coalesced        *)
(*     schedules (exactly the values the real type can hold); with Gen = TRUE every      *)
(*     transition is printed for replay on the implementation.                           *)
(*   Coded = TRUE uses the from_ranges merge of the pinned tree: TLC must then find a    *)
(*     counterexample to FromRangesLaw (non-vacuity, finding R10).                       *)
EXTENDS Schedule, Json

CONSTANTS Grid,          \* time points (minutes), containing 0 and 1440
          OperandCSets,  \* comment sets operands may carry
          MaxList,       \* longest from_ranges input list
          Inductive, Coded, Gen

VARIABLES s, bad, arg
vars == <<s, bad, arg>>
View == <<s, bad>>

RECURSIVE SchedFrom(_, _)
SchedFrom(p, csets) ==
  {<<>>} \cup UNION { {<<Rg(st, en, k, c)>> \o rest : rest \in SchedFrom(en, csets)} :
                      <<st, en, k, c>> \in {q \in Grid \X Grid \X Kinds \X csets : q[1] >= p /\ q[2] > q[1]} }

AllValid == SchedFrom(0, SUBSET (UNION OperandCSets))
Operands == IF Inductive THEN AllValid ELSE {t \in SchedFrom(0, OperandCSets) : Coalesced(t)}

Pairs == Grid \X Grid                            \* includes empty and inverted ranges
RangeLists == UNION {[1..n -> Pairs] : n \in 0..MaxList}

Emit(rec) == Gen => PrintT(<<"REPLAY", ToJson(rec)>>)
ToSeq(S) == LET RECURSIVE F(_)
                F(T) == IF T = {} THEN <<>> ELSE LET x == CHOOSE x \in T : TRUE IN <<x>> \o F(T \ {x})
            IN F(S)
\* JSON rendering of a schedule: comment sets become arrays
J(sch) == [i \in DOMAIN sch |-> <<sch[i].s, sch[i].e, sch[i].k, ToSeq(sch[i].c)>>]

Init == /\ s \in (IF Inductive THEN AllValid ELSE {<<>>})
        /\ bad = FALSE
        /\ arg = <<>>

AddRight == \E t \in Operands :
              LET r == Addition(s, t) IN
              /\ s' = r
              /\ bad' = ~(AdditionLaw(s, t, r) /\ AdditionKeepsComments(s, t, r))
              /\ arg' = <<"add_right", t>>
              /\ Emit([op |-> "add_right", s |-> J(s), t |-> J(t), r |-> J(r), til |-> J(Tiling(r))])

AddLeft == \E t \in Operands :
              LET r == Addition(t, s) IN
              /\ s' = r
              /\ bad' = ~(AdditionLaw(t, s, r) /\ AdditionKeepsComments(t, s, r))
              /\ arg' = <<"add_left", t>>
              /\ Emit([op |-> "add_left", s |-> J(s), t |-> J(t), r |-> J(r), til |-> J(Tiling(r))])

Build == /\ s = <<>>
         /\ \E L \in RangeLists, k \in Kinds, c \in OperandCSets :
              LET r == IF Coded THEN FromRangesCoded(L, k, c) ELSE FromRanges(L, k, c) IN
              /\ s' = r
              /\ bad' = ~(FromRangesLaw(L, k, c, r) /\ FromRangesMerged(r))
              /\ arg' = <<"from_ranges", L, k, c>>
              /\ Emit([op |-> "from_ranges", ranges |-> L, k |-> k, c |-> ToSeq(c), r |-> J(r), til |-> J(Tiling(r))])

Next == AddRight \/ AddLeft \/ Build
Spec == Init /\ [][Next]_vars

RepresentationOk == Valid(s) /\ WithinDay(s)
CoalescedOk      == ~Inductive => Coalesced(s)
LawsHold         == ~bad
TilingOk         == IsTilingOf(Tiling(s), s)
\* comments spread by the iterator only come from the schedule
TilingComments   == AllComments(Tiling(s)) \subseteq AllComments(s)

G2 == {0, 720, 1440}
G3 == {0, 480, 960, 1440}
CS3 == {{}, {"a"}, {"b"}}
CS2 == {{}, {"a"}}
=============================================================================
