SPECIFICATION Spec
CONSTANTS
  Grid <- G3
  OperandCSets <- CS2
  MaxList = 2
  Inductive = FALSE
  Coded = TRUE
  Gen = FALSE
INVARIANTS RepresentationOk CoalescedOk LawsHold TilingOk TilingComments
VIEW View
CHECK_DEADLOCK FALSE
