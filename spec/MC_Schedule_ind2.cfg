SPECIFICATION Spec
CONSTANTS
  Grid <- G2
  OperandCSets <- CS3
  MaxList = 3
  Inductive = TRUE
  Coded = FALSE
  Gen = FALSE
INVARIANTS RepresentationOk CoalescedOk LawsHold TilingOk TilingComments
VIEW View
CHECK_DEADLOCK FALSE
