SPECIFICATION Spec
CONSTANTS
  Grid <- G3
  OperandCSets <- CS3
  MaxList = 2
  Inductive = TRUE
  Coded = FALSE
  Gen = FALSE
INVARIANTS RepresentationOk CoalescedOk LawsHold TilingOk TilingComments
VIEW View
CHECK_DEADLOCK FALSE
