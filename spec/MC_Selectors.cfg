SPECIFICATION Spec
CONSTANTS
  Lo <- LoDef
  Hi <- HiDef
  Stride = 330
INVARIANTS WeekdayWrap MonthWrap WeekWrap NthPartition OffsetShifts HolidayOffset YearStep YearPlus DatePartition SingleDates EasterSunday
CHECK_DEADLOCK FALSE
