------------------------------ MODULE MC_Selectors ------------------------------
(* Model-level sanity laws of Selectors.tla (guards the oracle of C01 against my own       *)
(* misreading): checked for every day of a window covering all 14 calendar types           *)
(* (2019-01-01 .. 2032-12-31) and bounded selector parameters.                             *)
(*  - a wrapping range is the complement of the gap it leaves (weekdays, months, weeks)     *)
(*  - a date range and the range of the remaining days partition every year                 *)
(*  - nth positions: every day is exactly one k-th weekday from the start and one from the  *)
(*    end of its month; all positions together = the plain weekday                          *)
(*  - a day offset shifts the matched set by exactly the offset                             *)
(*  - year ranges with a step partition the range; `a+` = a..9999                           *)
(*  - a single date matches exactly one day per year in which it exists                     *)
EXTENDS Selectors, TLC

CONSTANTS Lo, Hi, Stride
VARIABLE n
Init == n \in {Lo + k * Stride : k \in 0..((Hi - Lo) \div Stride)}
Next == n < Hi /\ (n + 1 - Lo) % Stride # 0 /\ n' = n + 1
Spec == Init /\ [][Next]_n

AllT == <<TRUE, TRUE, TRUE, TRUE, TRUE>>
NoT == <<FALSE, FALSE, FALSE, FALSE, FALSE>>
Only(k) == [i \in 1..5 |-> i = k]
Wd(a, b, nth, nthr, days) == [t |-> "fixed", a |-> a, b |-> b, days |-> days, nth |-> nth, nthr |-> nthr]
NoCtx == [ph |-> {}, sh |-> {}, events |-> "default"]
WdM(r) == WeekdayMatch(r, n, NoCtx)

WeekdayWrap == \A a \in 0..6, b \in 0..6 :
                 (a # (b + 1) % 7) => (WdM(Wd(a, b, AllT, AllT, 0)) <=> ~WdM(Wd((b + 1) % 7, (a + 6) % 7, AllT, AllT, 0)))
MonthWrap == \A a \in 1..12, b \in 1..12 :
               (a # (b % 12) + 1) =>
                 (MonthMatch([t |-> "month", a |-> a, b |-> b, year |-> -1], n)
                    <=> ~MonthMatch([t |-> "month", a |-> (b % 12) + 1, b |-> ((a + 10) % 12) + 1, year |-> -1], n))
WeekWrap == \A a \in {1, 2, 10, 27, 52, 53}, b \in {1, 9, 26, 51, 52, 53} :
              (a # (b % 53) + 1) =>
                (WeekMatch([a |-> a, b |-> b, step |-> 1], n) <=> ~WeekMatch([a |-> (b % 53) + 1, b |-> ((a + 51) % 53) + 1, step |-> 1], n))

NthPartition == LET wd == Weekday(n) IN
                  /\ Cardinality({k \in 1..5 : WdM(Wd(wd, wd, Only(k), NoT, 0))}) = 1
                  /\ Cardinality({k \in 1..5 : WdM(Wd(wd, wd, NoT, Only(k), 0))}) = 1
                  /\ WdM(Wd(wd, wd, AllT, NoT, 0)) /\ WdM(Wd(wd, wd, NoT, AllT, 0))
                  \* the last such weekday of the month is the one with no later one in the month
                  /\ (WdM(Wd(wd, wd, NoT, Only(1), 0)) <=> MonthOf(n + 7) # MonthOf(n))
                  /\ (WdM(Wd(wd, wd, Only(1), NoT, 0)) <=> MonthOf(n - 7) # MonthOf(n))
OffsetShifts == \A k \in {-8, -1, 1, 2, 30}, a \in {0, 4, 6} :
                  WeekdayMatch(Wd(a, a, Only(1), Only(1), k), n, NoCtx) <=> WeekdayMatch(Wd(a, a, Only(1), Only(1), 0), n - k, NoCtx)
HolidayOffset == \A k \in {-2, 0, 3} :
                   LET ctx == [ph |-> {Lo + 10, Lo + 400, Lo + 401}, sh |-> {}, events |-> "default"]
                   IN WeekdayMatch([t |-> "holiday", kind |-> "public", days |-> k], n, ctx) <=> (n - k) \in ctx.ph

YearStep == \A step \in 2..4 :
              LET r(a) == [a |-> a, b |-> 2031, step |-> step] IN
              YearMatch([a |-> 2020, b |-> 2031, step |-> 1], n) <=>
                 Cardinality({o \in 0..(step - 1) : YearMatch(r(2020 + o), n)}) = 1
YearPlus == YearMatch([a |-> 2025, b |-> 9999, step |-> 1], n) <=> YearOf(n) >= 2025

Fixed(m, d) == [t |-> "fixed", year |-> -1, month |-> m, day |-> d]
Bnd(dt) == [date |-> dt, wsign |-> 0, wday |-> 0, days |-> 0]
Rng(m1, d1, m2, d2) == [t |-> "date", s |-> Bnd(Fixed(m1, d1)), e |-> Bnd(Fixed(m2, d2))]
\* Dec 25-Jan 5 and Jan 6-Dec 24 partition the days; so do Mar 1-Oct 31 and Nov 1-Feb 29 (clamped to Feb 28)
DatePartition == /\ (DateMatch(Rng(12, 25, 1, 5), n) <=> ~DateMatch(Rng(1, 6, 12, 24), n))
                 /\ (DateMatch(Rng(3, 1, 10, 31), n) <=> ~DateMatch(Rng(11, 1, 2, 29), n))
SingleDates == /\ (DateMatch(Rng(7, 14, 7, 14), n) <=> (MonthOf(n) = 7 /\ DayOf(n) = 14))
               /\ (DateMatch(Rng(2, 29, 2, 29), n) <=> (MonthOf(n) = 2 /\ DayOf(n) = 29))
               /\ ~DateMatch(Rng(4, 31, 4, 31), n) \/ ~DateDet(Rng(4, 31, 4, 31), n)
EasterSunday == LET e == [t |-> "date", s |-> Bnd([t |-> "easter", year |-> -1]), e |-> Bnd([t |-> "easter", year |-> -1])]
                IN DateMatch(e, n) <=> n = Easter(YearOf(n))

\* non-vacuity: "the last such weekday is in the last 6 days of the month" is false (it is the last 7)
WrongLastWeekday == LET wd == Weekday(n) IN WdM(Wd(wd, wd, NoT, Only(1), 0)) <=> MonthOf(n + 6) # MonthOf(n)

LoDef == 17897     \* 2019-01-01
HiDef == 23010     \* 2032-12-31
=============================================================================
