SPECIFICATION Spec
CONSTANTS
  Lo <- LoDef
  Hi <- HiDef
  Stride = 330
INVARIANTS WrongLastWeekday
CHECK_DEADLOCK FALSE
