SPECIFICATION GSpec
CONSTANTS
  Exprs = {1, 2}
  Ctxs = {0, 1}
  DefaultCtx = 0
  Handles = {1, 2, 3}
  Iters = {1}
  Windows = {1}
  MaxHeap = 3
  MaxPos = 2
  InPlace = FALSE
  Depth = 0
VIEW View
INVARIANTS TypeOK
PROPERTIES HeapImmutable Frame ObsIsVal
CHECK_DEADLOCK FALSE
