------------------------------ MODULE MC_Session ------------------------------
(* Exhaustive configuration of Session.tla (every history over 3 value slots, 2 expressions, *)
(* 2 contexts, 1 iterator, 3 allocations) and the generator of client programs that are     *)
(* replayed on the real library (`ohv replay session`): in simulation mode every behaviour   *)
(* of length Depth is printed as one REPLAY line - the sequence of steps, each observation   *)
(* carrying the abstract value the answers must be a function of.                           *)
EXTENDS Session, Json

CONSTANTS Depth       \* length of the printed programs (0: no printing)
VARIABLES hist
gvars == <<heap, h, it, last, hist>>

GInit == Init /\ hist = <<>>
\* `hist` receives a step when the behaviour moves on from it (so it only ever holds steps that were taken, not the candidates
\* a simulation looks at); `Stop` is a step without effect whose only purpose is to give every state exactly one successor
\* on which the finished program is printed.
Stop  == UNCHANGED <<heap, h, it>> /\ last' = [op |-> "stop"]
GNext == (Next \/ Stop) /\ hist' = IF Depth > 0 /\ Len(hist) < Depth /\ last.op \notin {"init", "stop"} THEN Append(hist, last) ELSE hist
GSpec == GInit /\ [][GNext]_gvars

\* `last` and `hist` are observation variables: they do not influence behaviour
View == <<heap, h, it>>

Emit == (Depth > 0 /\ Len(hist) = Depth /\ last.op = "stop") => PrintT(<<"REPLAY", ToJson([ops |-> hist])>>)
=============================================================================
