SPECIFICATION Spec
CONSTANTS
  Alphabet = {0, 1, 2, 3, 4, 5}
  MaxLen = 3
INVARIANT Invariant
CHECK_DEADLOCK FALSE
