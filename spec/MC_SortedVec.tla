----------------------------- MODULE MC_SortedVec -----------------------------
(* State machine: an accumulator vector is repeatedly united with arbitrary vectors    *)
(* over a small alphabet. One named action per branch of the Rust `union`, so that      *)
(* TLC's coverage shows every branch exercised. Invariants: the accumulator is sorted   *)
(* and unique and equals the shadow set; the coded union equals the set union.          *)
EXTENDS SortedVec

CONSTANTS Alphabet, MaxLen

VARIABLES acc, shadow
vars == <<acc, shadow>>

Vectors == UNION {[1..n -> Alphabet] : n \in 0..MaxLen}

Init == acc = <<>> /\ shadow = {}

Step(v) == /\ acc' = Union(acc, FromVec(v))
           /\ shadow' = shadow \cup Range(v)

UnionRightEmpty == \E v \in Vectors : Branch(acc, FromVec(v)) = "right_empty" /\ Step(v)
UnionLeftEmpty  == \E v \in Vectors : Branch(acc, FromVec(v)) = "left_empty" /\ Step(v)
UnionAppend     == \E v \in Vectors : Branch(acc, FromVec(v)) = "append" /\ Step(v)
UnionPrepend    == \E v \in Vectors : Branch(acc, FromVec(v)) = "prepend" /\ Step(v)
UnionPop        == \E v \in Vectors : Branch(acc, FromVec(v)) = "pop" /\ Step(v)

Next == UnionRightEmpty \/ UnionLeftEmpty \/ UnionAppend \/ UnionPrepend \/ UnionPop
Spec == Init /\ [][Next]_vars

Invariant  == IsSortedUnique(acc) /\ Range(acc) = shadow /\ acc = FromSet(shadow)

\* the coded union is the set union, is commutative, and its recursion is bounded; all pairs
Subsets == SUBSET Alphabet
LawUnion == \A A \in Subsets, B \in Subsets :
              LET x == FromSet(A)
                  y == FromSet(B)
              IN /\ Union(x, y) = UnionSet(x, y)
                 /\ Union(x, y) = Union(y, x)
                 /\ UnionDepth(x, y) <= Len(x) + Len(y)
LawFrom  == \A v \in Vectors : IsSortedUnique(FromVec(v)) /\ Range(FromVec(v)) = Range(v)
LawQuery == \A A \in Subsets, e \in Alphabet \cup {-1, 99} :
              LET x == FromSet(A)
                  f == FirstFollowing(x, e)
              IN /\ Member(x, e) <=> e \in A
                 /\ f # None => f \in A /\ f >= e /\ \A w \in A : w >= e => f <= w
                 /\ f = None => \A w \in A : w < e
ASSUME LawUnion /\ LawFrom /\ LawQuery
=============================================================================
