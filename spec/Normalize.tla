------------------------------- MODULE Normalize -------------------------------
(* Normalisation of opening-hours-syntax (normalize/paving.rs, normalize/mod.rs,          *)
(* rules/mod.rs normalize): the canonical rules of an expression are painted into an      *)
(* n-dimensional paving (machine M4: cut_at / set), then maximal selectors of equal       *)
(* value are popped (pop_filter, using is_val) and turned back into rules, a rule being   *)
(* emitted as a normal rule (`;`) if none of its days were output before (days_covered)   *)
(* and as an additional rule (`,`) otherwise.                                             *)
(*                                                                                        *)
(* The model is generic in the number of dimensions; MC_Normalize instantiates it with    *)
(* two (time x day). A paving of depth 0 is a value <<kind, comments>>; a paving of       *)
(* depth k > 0 is [cuts, cols]: an increasing sequence of cut points and one paving of    *)
(* depth k - 1 per interval between consecutive cuts. A selector is a sequence (one       *)
(* entry per dimension) of sequences of ranges [s, e).                                    *)
EXTENDS Integers, Sequences, FiniteSets, TLC

DefaultValue == <<"closed", {}>>
EmptyDim == [cuts |-> <<>>, cols |-> <<>>]
DefaultPaving(depth) == IF depth = 0 THEN DefaultValue ELSE EmptyDim
Rg(s, e) == [s |-> s, e |-> e]

InsertAt(q, pos, x) == SubSeq(q, 1, pos - 1) \o <<x>> \o SubSeq(q, pos, Len(q))

\* Dim::cut_at, with its five cases
CutAt(p, x, depth) ==
  IF \E i \in DOMAIN p.cuts : p.cuts[i] = x THEN p
  ELSE LET pos  == Cardinality({i \in DOMAIN p.cuts : p.cuts[i] < x}) + 1
           cuts == InsertAt(p.cuts, pos, x)
           n    == Len(cuts)
           dflt == DefaultPaving(depth - 1)
       IN [cuts |-> cuts,
           cols |-> IF n = 1 THEN p.cols
                    ELSE IF n = 2 THEN <<dflt>>
                    ELSE IF pos = n THEN Append(p.cols, dflt)
                    ELSE IF pos = 1 THEN <<dflt>> \o p.cols
                    ELSE InsertAt(p.cols, pos, p.cols[pos - 1])]

\* Paving::set
RECURSIVE SetP(_, _, _, _)
RECURSIVE SetRanges(_, _, _, _, _)
SetRanges(p, ranges, tailSel, val, depth) ==
  IF ranges = <<>> THEN p
  ELSE LET r  == ranges[1]
           p1 == CutAt(CutAt(p, r.s, depth), r.e, depth)
           p2 == [p1 EXCEPT !.cols = [i \in DOMAIN p1.cols |->
                     IF p1.cuts[i] >= r.s /\ p1.cuts[i] < r.e THEN SetP(p1.cols[i], tailSel, val, depth - 1)
                     ELSE p1.cols[i]]]
       IN SetRanges(p2, Tail(ranges), tailSel, val, depth)
SetP(p, sel, val, depth) == IF depth = 0 THEN val ELSE SetRanges(p, sel[1], Tail(sel), val, depth)

\* Paving::is_val. `coded` selects the version of the pinned tree, which answers "is the value
\* the default one?" as soon as a range sticks out of the cuts (finding R5); the intended version
\* still looks at the columns the range overlaps and at the other ranges.
RECURSIVE IsVal(_, _, _, _, _)
IsVal(p, sel, val, depth, coded) ==
  IF depth = 0 THEN p = val
  ELSE LET ranges == sel[1]
           n == Len(p.cuts)
           RECURSIVE Go(_)
           Go(i) ==
             IF i > Len(ranges) THEN TRUE
             ELSE LET r == ranges[i] IN
                  IF r.s >= r.e THEN Go(i + 1)
                  ELSE LET outside == p.cols = <<>> \/ r.s < p.cuts[1] \/ r.e > p.cuts[n]
                           colsOk == \A c \in DOMAIN p.cols :
                                       (p.cuts[c] < r.e /\ p.cuts[c + 1] > r.s) => IsVal(p.cols[c], Tail(sel), val, depth - 1, coded)
                       IN IF outside /\ coded THEN val = DefaultValue
                          ELSE IF outside /\ val # DefaultValue THEN FALSE
                          ELSE colsOk /\ Go(i + 1)
       IN Go(1)

\* Paving::pop_filter: result [found, value, sel, p]
Wanted(v, k) == v[1] = k /\ (k # "closed" \/ v[2] # {})
RECURSIVE PopFilter(_, _, _, _)
PopFilter(p, k, depth, coded) ==
  IF depth = 0 THEN
       IF Wanted(p, k) THEN [found |-> TRUE, value |-> p, sel |-> <<>>, p |-> DefaultValue]
       ELSE [found |-> FALSE, value |-> p, sel |-> <<>>, p |-> p]
  ELSE LET hits == {c \in DOMAIN p.cols : PopFilter(p.cols[c], k, depth - 1, coded).found} IN
       IF hits = {} THEN [found |-> FALSE, value |-> DefaultValue, sel |-> <<>>, p |-> p]
       ELSE LET first == CHOOSE c \in hits : \A d \in hits : c <= d
                inner == PopFilter(p.cols[first], k, depth - 1, coded)
                p1    == [p EXCEPT !.cols[first] = inner.p]
                \* columns joined to the selector: the first one and every later one holding the value
                joined(c) == c = first \/ (c > first /\ IsVal(p1.cols[c], inner.sel, inner.value, depth - 1, coded))
                RECURSIVE Ranges(_, _)
                Ranges(c, start) ==       \* start = 0: no open range
                  IF c > Len(p1.cols) THEN (IF start = 0 THEN <<>> ELSE <<Rg(p1.cuts[start], p1.cuts[c])>>)
                  ELSE IF c < first THEN Ranges(c + 1, 0)
                  ELSE IF joined(c) THEN Ranges(c + 1, IF start = 0 THEN c ELSE start)
                  ELSE (IF start = 0 THEN <<>> ELSE <<Rg(p1.cuts[start], p1.cuts[c])>>) \o Ranges(c + 1, 0)
                sel == <<Ranges(1, 0)>> \o inner.sel
            IN [found |-> TRUE, value |-> inner.value, sel |-> sel, p |-> SetP(p1, sel, DefaultValue, depth)]

-----------------------------------------------------------------------------
(* The normalisation of a sequence of canonical rules. A rule is                          *)
(*   [op, kind, c (comments), sel (selector: <<time ranges, day ranges, ...>>)]           *)
FullDaySel(sel, timeBounds) == <<<<timeBounds>>>> \o Tail(sel)

RECURSIVE Paint(_, _, _, _, _)
Paint(p, rules, i, depth, timeBounds) ==
  IF i > Len(rules) THEN p
  ELSE LET r  == rules[i]
           p1 == IF r.op = "normal" /\ r.kind # "closed"
                 THEN SetP(p, FullDaySel(r.sel, timeBounds), DefaultValue, depth)   \* overrides the whole day
                 ELSE p
       IN Paint(SetP(p1, r.sel, <<r.kind, r.c>>, depth), rules, i + 1, depth, timeBounds)

\* days_covered uses booleans; the same paving code with values TRUE / FALSE
RECURSIVE SetB(_, _, _, _)
RECURSIVE SetRangesB(_, _, _, _, _)
CutAtB(p, x, depth) ==
  IF \E i \in DOMAIN p.cuts : p.cuts[i] = x THEN p
  ELSE LET pos  == Cardinality({i \in DOMAIN p.cuts : p.cuts[i] < x}) + 1
           cuts == InsertAt(p.cuts, pos, x)
           n    == Len(cuts)
           dflt == IF depth = 1 THEN FALSE ELSE EmptyDim
       IN [cuts |-> cuts,
           cols |-> IF n = 1 THEN p.cols ELSE IF n = 2 THEN <<dflt>> ELSE IF pos = n THEN Append(p.cols, dflt)
                    ELSE IF pos = 1 THEN <<dflt>> \o p.cols ELSE InsertAt(p.cols, pos, p.cols[pos - 1])]
SetRangesB(p, ranges, tailSel, val, depth) ==
  IF ranges = <<>> THEN p
  ELSE LET r  == ranges[1]
           p1 == CutAtB(CutAtB(p, r.s, depth), r.e, depth)
           p2 == [p1 EXCEPT !.cols = [i \in DOMAIN p1.cols |->
                     IF p1.cuts[i] >= r.s /\ p1.cuts[i] < r.e THEN SetB(p1.cols[i], tailSel, val, depth - 1) ELSE p1.cols[i]]]
       IN SetRangesB(p2, Tail(ranges), tailSel, val, depth)
SetB(p, sel, val, depth) == IF depth = 0 THEN val ELSE SetRangesB(p, sel[1], Tail(sel), val, depth)
RECURSIVE IsValB(_, _, _, _, _)
IsValB(p, sel, val, depth, coded) ==
  IF depth = 0 THEN p = val
  ELSE LET ranges == sel[1]
           n == Len(p.cuts)
           RECURSIVE Go(_)
           Go(i) ==
             IF i > Len(ranges) THEN TRUE
             ELSE LET r == ranges[i] IN
                  IF r.s >= r.e THEN Go(i + 1)
                  ELSE LET outside == p.cols = <<>> \/ r.s < p.cuts[1] \/ r.e > p.cuts[n]
                           colsOk == \A c \in DOMAIN p.cols :
                                       (p.cuts[c] < r.e /\ p.cuts[c + 1] > r.s) => IsValB(p.cols[c], Tail(sel), val, depth - 1, coded)
                       IN IF outside /\ coded THEN val = FALSE
                          ELSE IF outside /\ val # FALSE THEN FALSE
                          ELSE colsOk /\ Go(i + 1)
       IN Go(1)

\* canonical_to_seq: pop open selectors first, then unknown, then closed ones that carry comments
RECURSIVE Emit(_, _, _, _, _)
Emit(p, covered, depth, coded, fuel) ==
  IF fuel = 0 THEN <<>>
  ELSE LET po == PopFilter(p, "open", depth, coded)
           pu == PopFilter(p, "unknown", depth, coded)
           pc == PopFilter(p, "closed", depth, coded)
           hit == IF po.found THEN po ELSE IF pu.found THEN pu ELSE pc
       IN IF ~hit.found THEN <<>>
          ELSE LET daySel == Tail(hit.sel)
                   op == IF IsValB(covered, daySel, FALSE, depth - 1, coded) THEN "normal" ELSE "additional"
               IN <<[op |-> op, kind |-> hit.value[1], c |-> hit.value[2], sel |-> hit.sel]>>
                  \o Emit(hit.p, SetB(covered, daySel, TRUE, depth - 1), depth, coded, fuel - 1)

NormalizeRules(rules, depth, timeBounds, coded) ==
  Emit(Paint(EmptyDim, rules, 1, depth, timeBounds), EmptyDim, depth, coded, 64)
=============================================================================
