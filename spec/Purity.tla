--------------------------------- MODULE Purity ---------------------------------
(* Machine M8: evaluation is a function of (expression, context, instant) only, also      *)
(* when several threads make the first, lazily initialising use of the process-wide       *)
(* tables (embedded public / school holiday databases, country boundaries, time-zone      *)
(* finder and name map, the Easter warning latch) at the same time.                       *)
(*                                                                                        *)
(* Threads execute a fixed program (a sequence of calls). A call needs a set of lazy      *)
(* statics; forcing a static is: uninit -> initialising(t) -> ready (std's LazyLock /      *)
(* Once: exactly one initialiser, the others block until it is ready). A call returns      *)
(* F[call] computed from complete tables.                                                 *)
EXTENDS Integers, Sequences, FiniteSets, TLC

CONSTANTS Threads, Statics, Calls,
          Uses,        \* Calls -> SUBSET Statics
          Program      \* Threads -> Seq(Calls)

VARIABLES lazy,        \* Statics -> [st : "uninit" | "init" | "ready", by : the initialising thread or "none"]
          inits,       \* Statics -> number of times the initialiser body started
          pc,          \* Threads -> index of the call in progress (Len + 1 = finished)
          phase,       \* Threads -> "idle" | "forcing"
          log          \* sequence of <<thread, call, sawReady>>
vars == <<lazy, inits, pc, phase, log>>

Init == /\ lazy = [s \in Statics |-> [st |-> "uninit", by |-> "none"]]
        /\ inits = [s \in Statics |-> 0]
        /\ pc = [t \in Threads |-> 1]
        /\ phase = [t \in Threads |-> "idle"]
        /\ log = <<>>

Current(t) == Program[t][pc[t]]
Active(t) == pc[t] <= Len(Program[t])

Begin(t) == /\ Active(t) /\ phase[t] = "idle"
            /\ phase' = [phase EXCEPT ![t] = "forcing"]
            /\ UNCHANGED <<lazy, inits, pc, log>>

\* first use of a static by thread t: it becomes the initialiser
StartInit(t, s) == /\ Active(t) /\ phase[t] = "forcing" /\ s \in Uses[Current(t)]
                   /\ lazy[s].st = "uninit"
                   /\ lazy' = [lazy EXCEPT ![s] = [st |-> "init", by |-> t]]
                   /\ inits' = [inits EXCEPT ![s] = @ + 1]
                   /\ UNCHANGED <<pc, phase, log>>

FinishInit(t, s) == /\ lazy[s] = [st |-> "init", by |-> t]
                    /\ lazy' = [lazy EXCEPT ![s] = [st |-> "ready", by |-> t]]
                    /\ UNCHANGED <<inits, pc, phase, log>>

\* the call returns once every static it needs is ready (other threads' initialisers are waited for)
Return(t) == /\ Active(t) /\ phase[t] = "forcing"
             /\ \A s \in Uses[Current(t)] : lazy[s].st = "ready"
             /\ log' = Append(log, <<t, Current(t), \A s \in Uses[Current(t)] : lazy[s].st = "ready">>)
             /\ pc' = [pc EXCEPT ![t] = @ + 1]
             /\ phase' = [phase EXCEPT ![t] = "idle"]
             /\ UNCHANGED <<lazy, inits>>

Next == \E t \in Threads : Begin(t) \/ Return(t) \/ \E s \in Statics : StartInit(t, s) \/ FinishInit(t, s)
Spec == Init /\ [][Next]_vars /\ WF_vars(Next)

InitOnce       == \A s \in Statics : inits[s] <= 1
NoPartialRead  == \A i \in DOMAIN log : log[i][3]
\* every response is the sequential one: a call's result depends on nothing but the call (tables are complete
\* when read), so the multiset of (call, result) pairs is the one of a sequential execution
Responses      == {<<log[i][1], log[i][2]>> : i \in DOMAIN log}
AllAnswered    == (\A t \in Threads : ~Active(t)) =>
                     Cardinality(DOMAIN log) = Len(Program[CHOOSE t \in Threads : TRUE]) * 0 +
                        (LET RECURSIVE Sum(_) Sum(S) == IF S = {} THEN 0 ELSE LET t == CHOOSE t \in S : TRUE IN Len(Program[t]) + Sum(S \ {t})
                         IN Sum(Threads))
\* liveness: every thread finishes (no deadlock between initialisers: a thread never holds one static while
\* waiting for another one it has to initialise itself)
Termination    == <>(\A t \in Threads : ~Active(t))
=============================================================================
