------------------------------- MODULE PyBinding -------------------------------
(* The Python constructor of opening-hours-py (machine M9): a decision table from the    *)
(* argument tuple (timezone, country, coords, auto_country, auto_timezone) and the        *)
(* expression to either an exception class or the evaluation context (which holiday       *)
(* calendars, which locale), and the rule giving the zone of returned datetimes.          *)
EXTENDS Integers, Sequences, FiniteSets

Flag(x) == x \in {"omitted", "none", "true"}        \* None and omission mean True

\* which exception the constructor raises, or "ok": coordinates are validated first, then the
\* expression is parsed, then the country code is looked up
Outcome(c) ==
  IF c.coords_valid = "invalid" THEN "InvalidCoordinatesError"
  ELSE IF ~c.expr_valid THEN "ParserError"
  ELSE IF c.country_valid = "invalid" THEN "UnknownCountryError"
  ELSE "ok"

\* holiday calendars of the context
Holidays(c) ==
  IF c.country_valid = "valid" THEN "country"
  ELSE IF c.coords_valid = "valid" /\ Flag(c.auto_country) THEN "coords"
  ELSE "none"

\* locale of the context
Locale(c) ==
  IF c.tz # "none" THEN
       IF c.coords_valid = "valid" /\ Flag(c.auto_timezone) THEN "tz+coords" ELSE "tz"
  ELSE IF c.coords_valid = "valid" /\ Flag(c.auto_timezone) THEN "coords"
  ELSE "naive"

\* zone carried by a returned datetime: the context zone, else the zone of the input, else naive
ResultZone(c, ctxZone, inputZone) ==
  IF Locale(c) # "naive" THEN ctxZone ELSE inputZone

\* the table is total and deterministic over the whole argument space
ArgSpace == [tz : {"none", "Europe/Paris"}, country_valid : {"none", "valid", "invalid"}, coords_valid : {"none", "valid", "invalid"},
             auto_country : {"omitted", "none", "true", "false"}, auto_timezone : {"omitted", "none", "true", "false"},
             expr_valid : BOOLEAN]
Total == \A c \in ArgSpace :
           /\ Outcome(c) \in {"ok", "InvalidCoordinatesError", "ParserError", "UnknownCountryError"}
           /\ Holidays(c) \in {"none", "country", "coords"}
           /\ Locale(c) \in {"naive", "tz", "tz+coords", "coords"}
\* an explicit zone is never replaced by the one inferred from the coordinates
ExplicitZoneWins == \A c \in ArgSpace : c.tz # "none" => Locale(c) \in {"tz", "tz+coords"}
\* an explicit country is never replaced by the one inferred from the coordinates
ExplicitCountryWins == \A c \in ArgSpace : c.country_valid = "valid" => Holidays(c) = "country"
=============================================================================
