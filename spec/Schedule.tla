------------------------------- MODULE Schedule -------------------------------
(* The day schedule of opening-hours (schedule.rs): an ordered vector of disjoint time   *)
(* ranges, each with a kind and a set of comments.                                       *)
(*                                                                                       *)
(* A range is a record [s, e, k, c]: start and end in minutes (0..2880), kind in         *)
(* {"open", "closed", "unknown"}, c a set of comment strings. A schedule is a sequence   *)
(* of ranges. FromRanges / Insert / Addition / Iterate are transcribed step for step     *)
(* from the Rust code; KindAt / Covered / the laws say what they must mean.              *)
EXTENDS Integers, Sequences, FiniteSets, TLC

DayEnd == 1440
Kinds  == {"open", "closed", "unknown"}
Hole   == "closed"                                \* IntoIter::HOLES_STATE

Rg(s, e, k, c) == [s |-> s, e |-> e, k |-> k, c |-> c]
Min2(a, b) == IF a < b THEN a ELSE b
Max2(a, b) == IF a > b THEN a ELSE b
SeqRange(q) == {q[i] : i \in DOMAIN q}

-----------------------------------------------------------------------------
(* Representation invariant and abstract view                                            *)

Valid(sch) == /\ \A i \in DOMAIN sch : sch[i].s < sch[i].e                 \* non-empty
              /\ \A i \in 1..(Len(sch) - 1) : sch[i].e <= sch[i + 1].s     \* increasing, disjoint
WithinDay(sch) == \A i \in DOMAIN sch : 0 <= sch[i].s /\ sch[i].e <= DayEnd
\* what the code additionally maintains: touching ranges of the same kind are coalesced
Coalesced(sch) == \A i \in 1..(Len(sch) - 1) : sch[i].e = sch[i + 1].s => sch[i].k # sch[i + 1].k

Covered(sch, m) == \E i \in DOMAIN sch : sch[i].s <= m /\ m < sch[i].e
RangeAt(sch, m) == sch[CHOOSE i \in DOMAIN sch : sch[i].s <= m /\ m < sch[i].e]
KindAt(sch, m)  == IF Covered(sch, m) THEN RangeAt(sch, m).k ELSE Hole
CommentsAt(sch, m) == IF Covered(sch, m) THEN RangeAt(sch, m).c ELSE {}
Points(sch) == {sch[i].s : i \in DOMAIN sch} \cup {sch[i].e : i \in DOMAIN sch}
AllComments(sch) == UNION {sch[i].c : i \in DOMAIN sch}
IsAlwaysClosed(sch) == \A i \in DOMAIN sch : sch[i].k = "closed"

-----------------------------------------------------------------------------
(* from_ranges: drop empty and inverted ranges, sort by start, merge overlapping or      *)
(* touching ranges. `Coded` is the merge as written in the pinned tree (the end of the   *)
(* right range replaces the end of the left one); `Intended` takes the maximum, which is *)
(* what "covers exactly the union of its input ranges" requires. They differ on nested   *)
(* ranges (finding R10).                                                                 *)

\* stable insertion sort by start (the Rust sort is unstable: ties may come in any order;
\* with the intended merge the result does not depend on it)
RECURSIVE SortByStart(_)
SortByStart(q) ==
  IF q = <<>> THEN <<>>
  ELSE LET i == CHOOSE i \in DOMAIN q : \A j \in DOMAIN q : q[i].s < q[j].s \/ (q[i].s = q[j].s /\ i <= j)
       IN <<q[i]>> \o SortByStart(SubSeq(q, 1, i - 1) \o SubSeq(q, i + 1, Len(q)))

RECURSIVE MergeSorted(_, _)
MergeSorted(q, takeMax) ==
  IF Len(q) < 2 THEN q
  ELSE IF q[1].e >= q[2].s
       THEN MergeSorted(<<[q[1] EXCEPT !.e = IF takeMax THEN Max2(q[1].e, q[2].e) ELSE q[2].e,
                                       !.c = @ \cup q[2].c]>> \o SubSeq(q, 3, Len(q)), takeMax)
       ELSE <<q[1]>> \o MergeSorted(Tail(q), takeMax)

\* ranges: a sequence of <<start, end>> pairs
FromRangesWith(ranges, k, c, takeMax) ==
  LET kept == SelectSeq([i \in DOMAIN ranges |-> Rg(ranges[i][1], ranges[i][2], k, c)], LAMBDA r : r.s < r.e)
  IN MergeSorted(SortByStart(kept), takeMax)
FromRanges(ranges, k, c)      == FromRangesWith(ranges, k, c, TRUE)     \* intended
FromRangesCoded(ranges, k, c) == FromRangesWith(ranges, k, c, FALSE)    \* pinned tree

-----------------------------------------------------------------------------
(* insert: cut the existing ranges around the inserted one, absorb the comments of the   *)
(* ranges that disappear, coalesce with touching neighbours of the same kind.            *)

RECURSIVE CutBefore(_, _)   \* -> [keep : sequence, c : comments absorbed]
CutBefore(sch, ins) ==
  IF sch = <<>> THEN [keep |-> <<>>, c |-> {}]
  ELSE LET tr == sch[1]
           rest == CutBefore(Tail(sch), ins)
       IN IF ~(tr.s < ins.e) THEN rest
          ELSE LET cut == [tr EXCEPT !.e = Min2(tr.e, ins.s)]
               IN IF cut.s < cut.e THEN [keep |-> <<cut>> \o rest.keep, c |-> rest.c]
                  ELSE [keep |-> rest.keep, c |-> tr.c \cup rest.c]

RECURSIVE CutAfter(_, _)
CutAfter(sch, ins) ==
  IF sch = <<>> THEN [keep |-> <<>>, c |-> {}]
  ELSE LET tr == sch[1]
           rest == CutAfter(Tail(sch), ins)
       IN IF ~(tr.e > ins.s) THEN rest
          ELSE LET cut == [tr EXCEPT !.s = Max2(tr.s, ins.e)]
               IN IF cut.s < cut.e THEN [keep |-> <<cut>> \o rest.keep, c |-> rest.c]
                  ELSE [keep |-> rest.keep, c |-> tr.c \cup rest.c]

RECURSIVE CoalesceLeft(_, _)   \* -> [before, ins]
CoalesceLeft(before, ins) ==
  IF before # <<>> /\ before[Len(before)].e = ins.s /\ before[Len(before)].k = ins.k
  THEN LET tr == before[Len(before)]
       IN CoalesceLeft(SubSeq(before, 1, Len(before) - 1), [ins EXCEPT !.s = tr.s, !.c = @ \cup tr.c])
  ELSE [before |-> before, ins |-> ins]

RECURSIVE CoalesceRight(_, _)  \* -> [after, ins]
CoalesceRight(after, ins) ==
  IF after # <<>> /\ ins.e = after[1].s /\ after[1].k = ins.k
  THEN CoalesceRight(Tail(after), [ins EXCEPT !.e = after[1].e, !.c = @ \cup after[1].c])
  ELSE [after |-> after, ins |-> ins]

Insert(sch, ins0) ==
  LET b    == CutBefore(sch, ins0)
      a    == CutAfter(sch, ins0)
      ins1 == [ins0 EXCEPT !.c = @ \cup b.c \cup a.c]
      l    == CoalesceLeft(b.keep, ins1)
      r    == CoalesceRight(a.keep, l.ins)
  IN l.before \o <<r.ins>> \o r.after

\* addition: insert the ranges of `other`, last one first
RECURSIVE Addition(_, _)
Addition(sch, other) ==
  IF other = <<>> THEN sch
  ELSE Addition(Insert(sch, other[Len(other)]), SubSeq(other, 1, Len(other) - 1))

-----------------------------------------------------------------------------
(* into_iter: the observable tiling of 00:00-24:00. One call of `next` = one element.    *)

RECURSIVE Absorb(_, _)         \* the `while let` loop of next(): -> [y, rest]
Absorb(y, rs) ==
  IF rs = <<>> THEN [y |-> IF y.k = Hole THEN [y EXCEPT !.e = DayEnd] ELSE y, rest |-> rs]
  ELSE LET n == rs[1] IN
       IF n.s > y.e /\ y.k # Hole THEN [y |-> y, rest |-> rs]
       ELSE LET y1 == IF n.s > y.e THEN [y EXCEPT !.e = n.s] ELSE y IN
            IF y1.k # n.k THEN [y |-> y1, rest |-> rs]
            ELSE Absorb([y1 EXCEPT !.e = n.e, !.c = @ \cup n.c], Tail(rs))

RECURSIVE IterFrom(_, _)       \* (last_end, remaining ranges) -> yielded ranges
IterFrom(lastEnd, rs) ==
  IF lastEnd >= DayEnd THEN <<>>
  ELSE LET startsHere == rs # <<>> /\ rs[1].s = lastEnd
           y0 == IF startsHere THEN rs[1]
                 ELSE Rg(lastEnd, IF rs # <<>> THEN rs[1].s ELSE lastEnd, Hole, {})
           res == Absorb(y0, IF startsHere THEN Tail(rs) ELSE rs)
       IN <<res.y>> \o IterFrom(res.y.e, res.rest)

Tiling(sch) == IterFrom(0, sch)

\* what a tiling must be (C14): gap free from 00:00 to 24:00, non-empty ranges, neighbours of
\* different kinds, and the kind of the schedule (closed in the holes) at every point
IsTilingOf(til, sch) ==
  /\ til # <<>>
  /\ til[1].s = 0 /\ til[Len(til)].e = DayEnd
  /\ \A i \in DOMAIN til : til[i].s < til[i].e
  /\ \A i \in 1..(Len(til) - 1) : til[i].e = til[i + 1].s /\ til[i].k # til[i + 1].k
  /\ \A m \in (Points(sch) \cup Points(til) \cup {0}) \ {DayEnd} :
        (m >= 0 /\ m < DayEnd) => KindAt(til, m) = KindAt(sch, m)

-----------------------------------------------------------------------------
(* Laws (C14), stated on values: they are what MC_Schedule checks for the transcribed    *)
(* operations and what Trace_Schedule checks for the recorded results of the real code.  *)

\* result r of from_ranges(ranges, k, c)
FromRangesLaw(ranges, k, c, r) ==
  LET pts == {ranges[i][1] : i \in DOMAIN ranges} \cup {ranges[i][2] : i \in DOMAIN ranges} \cup Points(r)
      InInput(m) == \E i \in DOMAIN ranges : ranges[i][1] <= m /\ m < ranges[i][2]
  IN /\ Valid(r)
     /\ \A i \in DOMAIN r : r[i].k = k /\ r[i].c = c
     /\ \A m \in pts : Covered(r, m) <=> InInput(m)
\* (not required by C14, but what the doc-test shows: touching ranges come out merged)
FromRangesMerged(r) == \A i \in 1..(Len(r) - 1) : r[i].e < r[i + 1].s

\* result r of a.addition(b), for valid a and b
AdditionLaw(a, b, r) ==
  LET pts == Points(a) \cup Points(b) \cup Points(r)
  IN /\ Valid(r)
     /\ \A m \in pts : /\ Covered(r, m) <=> (Covered(a, m) \/ Covered(b, m))
                       /\ KindAt(r, m) = IF Covered(b, m) THEN KindAt(b, m) ELSE KindAt(a, m)
     /\ AllComments(r) \subseteq AllComments(a) \cup AllComments(b)       \* comments are never invented
\* (model-level only: the winning range keeps at least its own comments)
AdditionKeepsComments(a, b, r) ==
  \A m \in Points(a) \cup Points(b) \cup Points(r) :
     (IF Covered(b, m) THEN CommentsAt(b, m) ELSE CommentsAt(a, m)) \subseteq CommentsAt(r, m)
=============================================================================
