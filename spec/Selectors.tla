------------------------------- MODULE Selectors -------------------------------
(* Day selectors of an opening_hours rule: when does a rule apply on a day?             *)
(*                                                                                       *)
(* Rules are the records the harness emits for the AST the library evaluated (DESIGN.md  *)
(* appendix C). Days are day numbers (Calendar.tla). For every selector kind there is a  *)
(* `...Match` operator (the documented meaning, DESIGN.md appendix A) and a `...Det`     *)
(* operator saying whether that meaning is pinned down for this selector on this day;    *)
(* where it is not, no verdict is taken (DESIGN.md 6.1).                                 *)
EXTENDS Calendar, Sequences, FiniteSets

SeqToSet(q) == {q[i] : i \in DOMAIN q}
WrapIn(a, b, x) == IF a <= b THEN a <= x /\ x <= b ELSE x >= a \/ x <= b
AbsDiff(a, b) == IF a >= b THEN a - b ELSE b - a
BigOffset == 400             \* day offsets beyond this are not given a meaning here

-----------------------------------------------------------------------------
(* year ranges  a-b/step                                                                 *)
YearMatch(r, n) == LET y == YearOf(n) IN WrapIn(r.a, r.b, y) /\ AbsDiff(y, r.a) % r.step = 0
YearDet(r, n)   == r.a <= r.b \/ r.step = 1

-----------------------------------------------------------------------------
(* month ranges  [year] m1-m2                                                            *)
\* with a year, a wrapping range (2021 Nov-Feb) continues on the following year
MonthMatch(r, n) ==
  IF r.year = -1 THEN WrapIn(r.a, r.b, MonthOf(n))
  ELSE IF r.a <= r.b THEN r.year = YearOf(n) /\ r.a <= MonthOf(n) /\ MonthOf(n) <= r.b
  ELSE (r.year = YearOf(n) /\ MonthOf(n) >= r.a) \/ (r.year + 1 = YearOf(n) /\ MonthOf(n) <= r.b)
MonthDet(r, n)   == TRUE

-----------------------------------------------------------------------------
(* dates and date ranges                                                                 *)
NoDate == -99999999
HasYear(dt) == dt.year # -1

\* first existing day on/after, last existing day on/before a written month-day of year Y
ClampAfter(Y, m, d)  == IF ValidYMD(Y, m, d) THEN DaysFromCivil(Y, m, d)
                        ELSE DaysFromCivil(Y, m, DaysInMonth(Y, m)) + 1
ClampBefore(Y, m, d) == DaysFromCivil(Y, m, IF d <= DaysInMonth(Y, m) THEN d ELSE DaysInMonth(Y, m))

\* a written date projected on year Y (NoDate if it carries another year)
Proj(dt, Y, after) ==
  IF dt.t = "easter" THEN Easter(IF HasYear(dt) THEN dt.year ELSE Y)
  ELSE IF HasYear(dt) /\ dt.year # Y THEN NoDate
  ELSE IF after THEN ClampAfter(Y, dt.month, dt.day) ELSE ClampBefore(Y, dt.month, dt.day)

\* offsets: +-n days, then to the next / previous given weekday
Shift(b, x) ==
  LET x1 == x + b.days IN
  CASE b.wsign = 1  -> x1 + ((7 + b.wday - Weekday(x1)) % 7)
    [] b.wsign = -1 -> x1 - ((7 + Weekday(x1) - b.wday) % 7)
    [] OTHER -> x1
ShiftDet(b, x) == /\ ~(b.wsign # 0 /\ b.days # 0)                     \* order of the two offsets
                  /\ (b.wsign # 0 => Weekday(x + b.days) # b.wday)     \* already on that weekday
                  /\ b.days >= 0 - BigOffset /\ b.days <= BigOffset

BoundAt(b, Y, after) == LET p == Proj(b.date, Y, after) IN IF p = NoDate THEN NoDate ELSE Shift(b, p)
BoundDetAt(b, Y, after) == LET p == Proj(b.date, Y, after) IN p = NoDate \/ ShiftDet(b, p)

MinOf(S) == CHOOSE x \in S : \A z \in S : x <= z

\* the end bound that closes an interval starting at day x: the first projected end >= x
FirstEndFrom(r, x, Ys) ==
  LET cands == {BoundAt(r.e, Y, FALSE) : Y \in Ys} \ {NoDate}
      later == {e \in cands : e >= x}
  IN IF later = {} THEN NoDate ELSE MinOf(later)

IsSingle(r) == r.s = r.e
Exists(dt, Y) == dt.t = "easter" \/ ValidYMD(Y, dt.month, dt.day)
YearOk(dt, Y) == dt.t = "easter" \/ ~HasYear(dt) \/ dt.year = Y

\* a single written day: that calendar day (shifted by its offset) of each year it exists in
SingleMatch(r, n) ==
  LET y == YearOf(n) IN
  \E Y \in (y - 2)..(y + 2) :
     /\ YearOk(r.s.date, Y) /\ Exists(r.s.date, Y)
     /\ n = Shift(r.s, Proj(r.s.date, Y, TRUE))
\* Feb 29 never matches in a common year (pinned by the repository's tests); for any other day
\* that does not exist in a year (Apr 31, Feb 30) only the two clamped neighbours are left open
SingleDet(r, n) ==
  LET y == YearOf(n)
      dt == r.s.date
  IN \A Y \in (y - 2)..(y + 2) :
       /\ BoundDetAt(r.s, Y, TRUE)
       /\ (YearOk(dt, Y) /\ ~Exists(dt, Y) /\ ~(dt.month = 2 /\ dt.day = 29 /\ ~HasYear(dt))) =>
             n \notin {Shift(r.s, ClampAfter(Y, dt.month, dt.day)), Shift(r.s, ClampBefore(Y, dt.month, dt.day))}

RangeMatch(r, n) ==
  LET y  == YearOf(n)
      hs == HasYear(r.s.date)
      he == HasYear(r.e.date)
  IN IF ~hs /\ ~he THEN
          \E Y \in (y - 1)..(y + 1) :
             LET s == BoundAt(r.s, Y, TRUE)
                 e == FirstEndFrom(r, s, (y - 2)..(y + 2))
             IN e # NoDate /\ s <= n /\ n <= e
     ELSE IF hs /\ ~he THEN
          LET Ys == r.s.date.year
              s  == BoundAt(r.s, Ys, TRUE)
              e  == FirstEndFrom(r, s, {Ys, Ys + 1})
          IN e # NoDate /\ s <= n /\ n <= e
     ELSE IF hs /\ he THEN
          BoundAt(r.s, r.s.date.year, TRUE) <= n /\ n <= BoundAt(r.e, r.e.date.year, FALSE)
     ELSE FALSE
RangeDet(r, n) ==
  LET y  == YearOf(n)
      hs == HasYear(r.s.date)
      he == HasYear(r.e.date)
  IN /\ \A Y \in (y - 2)..(y + 2) : BoundDetAt(r.s, Y, TRUE) /\ BoundDetAt(r.e, Y, FALSE)
     /\ ~(~hs /\ he)                                                  \* a year on the end bound only
     /\ (hs /\ he) => BoundAt(r.s, r.s.date.year, TRUE) <= BoundAt(r.e, r.e.date.year, FALSE)
     \* offsets that invert the order of the two bounds within a year
     /\ \A Y \in (y - 1)..(y + 1) :
           LET s0 == Proj(r.s.date, Y, TRUE)
               e0 == Proj(r.e.date, Y, FALSE)
           IN (s0 # NoDate /\ e0 # NoDate) => ((s0 <= e0) <=> (Shift(r.s, s0) <= Shift(r.e, e0)))
     \* occurrences whose offsets make them degenerate: the written end (this year's, or next year's for a range written
     \* across the year end) must not come before the start once shifted, and an occurrence must be over before the next
     \* one starts (`Jan 9-Fr-Dec 31 +4 days`, `2025 Dec 28-Jan 31 -35 days`: which end closes which start then depends on
     \* the years an implementation happens to look at)
     /\ (~he) =>
           \A Y \in (IF hs THEN {r.s.date.year} ELSE (y - 2)..(y + 1)) :
              LET s0 == Proj(r.s.date, Y, TRUE)
                  e0 == Proj(r.e.date, Y, FALSE)
                  e1 == Proj(r.e.date, Y + 1, FALSE)
                  sN == Proj(r.s.date, Y + 1, TRUE)
                  eY == IF e0 # NoDate /\ s0 <= e0 THEN e0 ELSE e1      \* the written end of the occurrence of year Y
              IN (s0 # NoDate /\ eY # NoDate) =>
                    /\ Shift(r.s, s0) <= Shift(r.e, eY)
                    /\ (e0 # NoDate /\ e0 < s0) => Shift(r.e, e0) < Shift(r.s, s0)        \* the previous occurrence is over
                    /\ (~hs /\ sN # NoDate) => Shift(r.e, eY) < Shift(r.s, sN)

DateMatch(r, n) == IF IsSingle(r) THEN SingleMatch(r, n) ELSE RangeMatch(r, n)
DateDet(r, n)   == IF IsSingle(r) THEN SingleDet(r, n) ELSE RangeDet(r, n)

MonthdayMatch(r, n) == IF r.t = "month" THEN MonthMatch(r, n) ELSE DateMatch(r, n)
MonthdayDet(r, n)   == IF r.t = "month" THEN MonthDet(r, n) ELSE DateDet(r, n)

-----------------------------------------------------------------------------
(* ISO week ranges  a-b/step                                                             *)
WeekMatch(r, n) == LET w == WeekNum(n) IN
                   WrapIn(r.a, r.b, w) /\ (IF w >= r.a THEN (w - r.a) % r.step = 0 ELSE TRUE)
WeekDet(r, n)   == r.a <= r.b \/ r.step = 1

-----------------------------------------------------------------------------
(* weekdays (wrapping ranges, nth of the month from either end, day offset) and holidays *)
WeekdayMatch(r, n, ctx) ==
  LET d == n - r.days IN
  IF r.t = "holiday" THEN d \in (IF r.kind = "public" THEN ctx.ph ELSE ctx.sh)
  ELSE LET c == CivilFromDays(d)
           fromStart == (c[3] - 1) \div 7
           fromEnd   == (DaysInMonth(c[1], c[2]) - c[3]) \div 7
       IN WrapIn(r.a, r.b, Weekday(d)) /\ (r.nth[fromStart + 1] \/ r.nthr[fromEnd + 1])
WeekdayDet(r, n) == r.days >= 0 - BigOffset /\ r.days <= BigOffset

-----------------------------------------------------------------------------
(* the whole day selector: every non-empty dimension must match, a dimension matches if  *)
(* any of its ranges does                                                                *)
DayMatch(rule, n, ctx) ==
  /\ rule.year = <<>>     \/ \E i \in DOMAIN rule.year : YearMatch(rule.year[i], n)
  /\ rule.monthday = <<>> \/ \E i \in DOMAIN rule.monthday : MonthdayMatch(rule.monthday[i], n)
  /\ rule.week = <<>>     \/ \E i \in DOMAIN rule.week : WeekMatch(rule.week[i], n)
  /\ rule.weekday = <<>>  \/ \E i \in DOMAIN rule.weekday : WeekdayMatch(rule.weekday[i], n, ctx)

DayDet(rule, n) ==
  /\ \A i \in DOMAIN rule.year : YearDet(rule.year[i], n)
  /\ \A i \in DOMAIN rule.monthday : MonthdayDet(rule.monthday[i], n)
  /\ \A i \in DOMAIN rule.week : WeekDet(rule.week[i], n)
  /\ \A i \in DOMAIN rule.weekday : WeekdayDet(rule.weekday[i], n)
=============================================================================
