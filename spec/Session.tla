-------------------------------- MODULE Session --------------------------------
(* Machine M11: the life of OpeningHours VALUES. The library is used through values that  *)
(* are built step by step - parse, with_context (consumes the value), normalize (borrows  *)
(* it and builds a new expression), clone (shares the expression through an Arc), range   *)
(* iterators (each holds a clone of the value it was asked from and is consumed one       *)
(* `next()` at a time) - and every observation (state, next_change, intervals, printing,  *)
(* `==`) must be a function of the ABSTRACT value of the handle it is made on:            *)
(*     Val(x) = (expression, normalised?, context)                                        *)
(* whatever the history that built it, whatever was done to other handles in between      *)
(* (C18: repeated calls, clones, interleaving with other expressions; C07: the normal     *)
(* form carries the same context; C16: the interval-size bound lives in the context and   *)
(* follows the value).                                                                    *)
(*                                                                                        *)
(* Mechanism, as coded (opening_hours.rs:42-96, 391-420): a value is an Arc pointer to an *)
(* immutable expression cell plus a context; `with_context` keeps the pointer, `normalize`*)
(* allocates a new cell, `clone` copies pointer and context, `TimeDomainIterator::new`    *)
(* clones the value. The heap is append-only: sharing is unobservable because no cell is  *)
(* ever written after its allocation (HeapImmutable), and each step changes the abstract  *)
(* value of its destination only (Frame). `NormalizeInPlace` is NOT in the code: it is    *)
(* the tempting optimisation (normalise through the pointer) kept as a named deviation    *)
(* for the non-vacuity configuration - with it TLC finds a clone or a running iterator    *)
(* whose value changes under its feet.                                                    *)
EXTENDS Integers, Sequences, FiniteSets, TLC

CONSTANTS Exprs,       \* expression ids (the harness binds them to pairwise different source strings)
          Ctxs,        \* context ids; DefaultCtx is what parse() attaches
          DefaultCtx,
          Handles,     \* value slots of the client program
          Iters,       \* iterator slots
          Windows,     \* window ids (the harness binds them to [from, to) pairs)
          MaxHeap,     \* bound on allocations (guard of Parse / Normalize: keeps the exhaustive configuration finite)
          MaxPos,      \* bound on next() calls per iterator
          InPlace      \* TRUE: the deviation NormalizeInPlace is enabled (non-vacuity)

VARIABLES heap,        \* Seq([expr, norm]) : the Arc'd expression cells, append-only
          h,           \* Handles -> [live, addr, ctx]
          it,          \* Iters -> [live, addr, ctx, win, pos, done]
          last         \* the step just taken (op record; also the replay line of the generator)
vars == <<heap, h, it, last>>

Dead     == [live |-> FALSE, addr |-> 0, ctx |-> DefaultCtx]
DeadIter == [live |-> FALSE, addr |-> 0, ctx |-> DefaultCtx, win |-> 0, pos |-> 0]
NoVal    == [expr |-> 0, norm |-> FALSE, ctx |-> DefaultCtx]

\* the abstract value behind a pointer + context
ValOf(hp, x) == IF x.live THEN [expr |-> hp[x.addr].expr, norm |-> hp[x.addr].norm, ctx |-> x.ctx] ELSE NoVal
Val(d)   == ValOf(heap, h[d])
IVal(k)  == ValOf(heap, it[k])

Init == /\ heap = <<>>
        /\ h = [d \in Handles |-> Dead]
        /\ it = [k \in Iters |-> DeadIter]
        /\ last = [op |-> "init"]

\* OpeningHours::parse: a fresh cell, the default context
Parse(d, e) ==
  /\ Len(heap) < MaxHeap
  /\ heap' = Append(heap, [expr |-> e, norm |-> FALSE])
  /\ h' = [h EXCEPT ![d] = [live |-> TRUE, addr |-> Len(heap) + 1, ctx |-> DefaultCtx]]
  /\ it' = it
  /\ last' = [op |-> "parse", dst |-> d, expr |-> e, val |-> [expr |-> e, norm |-> FALSE, ctx |-> DefaultCtx]]

\* Clone::clone: pointer and context copied, the cell is shared
CloneTo(s, d) ==
  /\ h[s].live /\ s # d
  /\ h' = [h EXCEPT ![d] = h[s]]
  /\ UNCHANGED <<heap, it>>
  /\ last' = [op |-> "clone", src |-> s, dst |-> d, val |-> Val(s)]

\* with_context(self, ctx): the value is moved (the source slot dies unless it is the destination)
WithContext(s, d, c) ==
  /\ h[s].live
  /\ h' = [x \in Handles |-> IF x = d THEN [h[s] EXCEPT !.ctx = c] ELSE IF x = s THEN Dead ELSE h[x]]
  /\ UNCHANGED <<heap, it>>
  /\ last' = [op |-> "with_context", src |-> s, dst |-> d, ctx |-> c, val |-> [Val(s) EXCEPT !.ctx = c]]

\* normalize(&self): a NEW cell holding the normal form; the context is cloned; the source stays
Normalize(s, d) ==
  /\ h[s].live /\ Len(heap) < MaxHeap
  /\ heap' = Append(heap, [expr |-> heap[h[s].addr].expr, norm |-> TRUE])
  /\ h' = [h EXCEPT ![d] = [live |-> TRUE, addr |-> Len(heap) + 1, ctx |-> h[s].ctx]]
  /\ it' = it
  /\ last' = [op |-> "normalize", src |-> s, dst |-> d, val |-> [Val(s) EXCEPT !.norm = TRUE]]

\* NOT in the code: normalising through the shared pointer
NormalizeInPlace(s) ==
  /\ InPlace /\ h[s].live
  /\ heap' = [heap EXCEPT ![h[s].addr].norm = TRUE]
  /\ UNCHANGED <<h, it>>
  /\ last' = [op |-> "normalize", src |-> s, dst |-> s, val |-> [Val(s) EXCEPT !.norm = TRUE]]

Drop(d) ==
  /\ h[d].live
  /\ h' = [h EXCEPT ![d] = Dead]
  /\ UNCHANGED <<heap, it>>
  /\ last' = [op |-> "drop", dst |-> d]

\* observations: state / next_change / intervals / printing at the harness's instants. `val` is what the answers must be
\* a function of.
Eval(s) ==
  /\ h[s].live
  /\ UNCHANGED <<heap, h, it>>
  /\ last' = [op |-> "eval", src |-> s, val |-> Val(s)]

\* `a == b` (derived PartialEq: structural equality of expression and context). Determined when both sides have the same
\* abstract value (TRUE) or differ in expression or context (FALSE); an expression and its own normal form may or may not
\* be structurally equal.
EqObs(a, b) ==
  /\ h[a].live /\ h[b].live /\ a # b
  /\ UNCHANGED <<heap, h, it>>
  /\ last' = [op |-> "eq", src |-> a, other |-> b, val |-> Val(a),
              expect |-> IF Val(a) = Val(b) THEN "equal"
                         ELSE IF Val(a).expr # Val(b).expr \/ Val(a).ctx # Val(b).ctx THEN "different" ELSE "any"]

\* iter_range(from, to): TimeDomainIterator::new clones the value
IterNew(k, s, w) ==
  /\ h[s].live
  /\ it' = [it EXCEPT ![k] = [live |-> TRUE, addr |-> h[s].addr, ctx |-> h[s].ctx, win |-> w, pos |-> 0]]
  /\ UNCHANGED <<heap, h>>
  /\ last' = [op |-> "iter_new", iter |-> k, src |-> s, win |-> w, val |-> Val(s)]

\* one next(): must be element number pos + 1 of the stream of the value the iterator was created from (or None)
IterNext(k) ==
  /\ it[k].live /\ it[k].pos < MaxPos
  /\ it' = [it EXCEPT ![k].pos = @ + 1]
  /\ UNCHANGED <<heap, h>>
  /\ last' = [op |-> "iter_next", iter |-> k, win |-> it[k].win, index |-> it[k].pos + 1, val |-> IVal(k)]

IterDrop(k) ==
  /\ it[k].live
  /\ it' = [it EXCEPT ![k] = DeadIter]
  /\ UNCHANGED <<heap, h>>
  /\ last' = [op |-> "iter_drop", iter |-> k]

Next == \/ \E d \in Handles, e \in Exprs : Parse(d, e)
        \/ \E s, d \in Handles : CloneTo(s, d)
        \/ \E s, d \in Handles, c \in Ctxs : WithContext(s, d, c)
        \/ \E s, d \in Handles : Normalize(s, d)
        \/ \E s \in Handles : NormalizeInPlace(s)
        \/ \E d \in Handles : Drop(d)
        \/ \E s \in Handles : Eval(s)
        \/ \E a, b \in Handles : EqObs(a, b)
        \/ \E k \in Iters, s \in Handles, w \in Windows : IterNew(k, s, w)
        \/ \E k \in Iters : IterNext(k) \/ IterDrop(k)

Spec == Init /\ [][Next]_vars

-----------------------------------------------------------------------------
\* Properties.

TypeOK == /\ \A d \in Handles : h[d].live => h[d].addr \in DOMAIN heap
          /\ \A k \in Iters : it[k].live => it[k].addr \in DOMAIN heap

\* no cell is written after its allocation: the reason why sharing through Arc is unobservable
HeapImmutable == [][\A a \in DOMAIN heap : heap'[a] = heap[a]]_vars

\* a step changes the abstract value of its destination handle only (and kills the moved source); every other handle
\* and every iterator keeps its value
Touched(l) == (IF "dst" \in DOMAIN l THEN {l.dst} ELSE {}) \cup (IF l.op = "with_context" THEN {l.src} ELSE {})
Frame == [][ /\ \A d \in Handles \ Touched(last') : ValOf(heap', h'[d]) = ValOf(heap, h[d])
             /\ \A k \in Iters : (it[k].live /\ it'[k].live /\ ~(last'.op = "iter_new" /\ last'.iter = k))
                                     => ValOf(heap', it'[k]) = ValOf(heap, it[k]) ]_vars

\* what the generator promises the harness: the value announced with an observation is the value of the handle / iterator
ObsNow == /\ last.op = "eval" => last.val = Val(last.src)
          /\ last.op = "iter_next" => last.val = IVal(last.iter)
          /\ last.op \in {"parse", "clone", "with_context", "normalize"} => last.val = Val(last.dst)
ObsIsVal == [][ObsNow']_vars

=============================================================================
