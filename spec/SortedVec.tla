------------------------------ MODULE SortedVec ------------------------------
(* UniqueSortedVec of opening-hours-syntax (sorted_vec.rs): a vector that is always    *)
(* strictly increasing. `Union` is transcribed branch by branch from the Rust code     *)
(* (five-way case split, recursion on the shortened operands); `UnionSet` is the       *)
(* declarative meaning it must have.                                                   *)
EXTENDS Integers, Sequences, FiniteSets, SequencesExt, TLC

IsSortedUnique(s) == \A i \in 1..(Len(s) - 1) : s[i] < s[i + 1]

\* From<Vec<T>>: sort + dedup
FromVec(v) == SetToSortSeq(Range(v), <)
FromSet(S) == SetToSortSeq(S, <)

\* which branch of `union` is taken for operands x (self) and y (other)
Branch(x, y) ==
  IF y = <<>> THEN "right_empty"
  ELSE IF x = <<>> THEN "left_empty"
  ELSE IF x[Len(x)] < y[1] THEN "append"
  ELSE IF y[Len(y)] < x[1] THEN "prepend"
  ELSE "pop"


RECURSIVE Union(_, _)
Union(x, y) ==
  CASE Branch(x, y) = "right_empty" -> x
    [] Branch(x, y) = "left_empty"  -> y
    [] Branch(x, y) = "append"      -> x \o y
    [] Branch(x, y) = "prepend"     -> y \o x
    [] OTHER ->
         LET tx == x[Len(x)]
             ty == y[Len(y)]
         IN IF tx > ty THEN Append(Union(Front(x), y), tx)
            ELSE IF tx < ty THEN Append(Union(x, Front(y)), ty)
            ELSE Append(Union(Front(x), Front(y)), tx)

\* depth of the recursion (work bound: at most Len(x) + Len(y) pops)
RECURSIVE UnionDepth(_, _)
UnionDepth(x, y) ==
  IF Branch(x, y) # "pop" THEN 0
  ELSE LET tx == x[Len(x)]
           ty == y[Len(y)]
       IN 1 + (IF tx > ty THEN UnionDepth(Front(x), y)
               ELSE IF tx < ty THEN UnionDepth(x, Front(y))
               ELSE UnionDepth(Front(x), Front(y)))

UnionSet(x, y) == FromSet(Range(x) \cup Range(y))

Member(x, e) == e \in Range(x)

\* find_first_following: the least element not smaller than e, or None
None == -1
FirstFollowing(x, e) ==
  LET ge == {v \in Range(x) : v >= e}
  IN IF ge = {} THEN None ELSE CHOOSE v \in ge : \A w \in ge : v <= w
=============================================================================
