---------------------------------- MODULE Sun ----------------------------------
(* Sun events (localization/coordinates.rs, localize.rs event_time).                      *)
(* Without coordinates: dawn 06:00, sunrise 07:00, sunset 19:00, dusk 20:00 on every date. *)
(* With coordinates (|lat| <= 60 deg) and the zone inferred from them, the local times     *)
(* are physically ordered around solar noon. Integer arithmetic only: angles in 1e-4       *)
(* degree, times in seconds; the numeric accuracy of the solar model is NOT specified,     *)
(* only order and consistency.                                                             *)
EXTENDS Integers, Sequences

Day == 86400
Defaults == <<21600, 25200, 68400, 72000>>            \* 06:00 07:00 19:00 20:00
EqTimeBound == 1020                                   \* |equation of time| < 17 min

\* mean solar noon on the local clock: 12:00 - lon / 15 h + zone offset
MeanNoon(lon1e4, off) == 43200 - ((lon1e4 * 240) \div 10000) + off

\* the representative of a time of day nearest to `ref` (times of day are only known modulo a day)
Near(x, ref) == LET k == (ref - x + (Day \div 2)) \div Day IN x + k * Day

\* local event times <<dawn, sunrise, sunset, dusk>> ordered around solar noon
Ordered(local, lon1e4, off) ==
  LET n  == MeanNoon(lon1e4, off)
      d  == Near(local[1], n - 6 * 3600)
      sr == Near(local[2], n - 6 * 3600)
      ss == Near(local[3], n + 6 * 3600)
      du == Near(local[4], n + 6 * 3600)
  IN d < sr /\ sr < n - EqTimeBound /\ n + EqTimeBound < ss /\ ss < du /\ du - d < Day

\* a coordinate pair is accepted iff both are numbers within range
Accepts(latClass, lat1e4, lonClass, lon1e4) ==
  /\ latClass = "num" /\ lonClass = "num"
  /\ lat1e4 >= -900000 /\ lat1e4 <= 900000
  /\ lon1e4 >= -1800000 /\ lon1e4 <= 1800000
=============================================================================
