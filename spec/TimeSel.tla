-------------------------------- MODULE TimeSel --------------------------------
(* Time spans of a rule projected on a day: fixed minutes or sun event +- offset, spans  *)
(* passing midnight continue on the following day.                                       *)
EXTENDS Integers, Sequences

\* sun events without coordinates, and a synthetic per-day table used by the harness to make
\* event times vary with the date (the harness installs the same function as its Localize)
DefaultEvent(ev) == CASE ev = "dawn" -> 360 [] ev = "sunrise" -> 420 [] ev = "sunset" -> 1140 [] OTHER -> 1200
SyntheticEvent(n, ev) ==
  LET dawn   == 240 + (n % 97)
      sunset == 1020 + (n % 113)
  IN CASE ev = "dawn" -> dawn
       [] ev = "sunrise" -> dawn + 20 + (n % 41)
       [] ev = "sunset" -> sunset
       [] OTHER -> sunset + 15 + (n % 37)
EventTime(ctx, n, ev) == IF ctx.events = "default" THEN DefaultEvent(ev) ELSE SyntheticEvent(n, ev)

TimeVal(t, n, ctx) == IF t.t = "fixed" THEN t.m ELSE EventTime(ctx, n, t.ev) + t.off
\* an event +- offset that leaves 00:00..24:00 has no pinned meaning
TimeValDet(t, n, ctx) == t.t = "fixed" \/ (TimeVal(t, n, ctx) >= 0 /\ TimeVal(t, n, ctx) <= 1440)

\* <<start, end>> in 0..2880; an end not after the start wraps to the next day
SpanRange(sp, n, ctx) ==
  LET s == TimeVal(sp.s, n, ctx)
      e == TimeVal(sp.e, n, ctx)
  IN IF s < e THEN <<s, e>> ELSE <<s, e + 1440>>
SpanDet(sp, n, ctx) ==
  /\ ~sp.open_end                       \* `12:00+`: left open by the documentation
  /\ sp.repeats = -1                    \* `10:00-16:00/90`: not evaluated
  /\ TimeValDet(sp.s, n, ctx) /\ TimeValDet(sp.e, n, ctx)
  /\ SpanRange(sp, n, ctx)[2] <= 2880

Clip(rg, lo, hi, shift) ==
  <<(IF rg[1] > lo THEN rg[1] ELSE lo) - shift, (IF rg[2] < hi THEN rg[2] ELSE hi) - shift>>

\* the parts of the spans of `rule` on day n that lie in 00:00-24:00, and the parts beyond 24:00
\* (which show on day n + 1), as sequences of <<start, end>> (possibly empty ones)
TodayRanges(rule, n, ctx) == [i \in DOMAIN rule.time |-> Clip(SpanRange(rule.time[i], n, ctx), 0, 1440, 0)]
SpillRanges(rule, n, ctx) == [i \in DOMAIN rule.time |-> Clip(SpanRange(rule.time[i], n, ctx), 1440, 2880, 1440)]
HasSpill(rule, n, ctx) == \E i \in DOMAIN rule.time : SpanRange(rule.time[i], n, ctx)[2] > 1440
TimeDet(rule, n, ctx) == \A i \in DOMAIN rule.time : SpanDet(rule.time[i], n, ctx)
=============================================================================
