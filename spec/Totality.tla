-------------------------------- MODULE Totality --------------------------------
(* C04: every public call returns normally (Ok or Err) after a bounded amount of work.    *)
(* The outcome alphabet of a call is {ok, err}: a panic or a watchdog expiry has no        *)
(* explaining action. Work is measured deterministically by the number of day schedules    *)
(* computed (hook counter): the iterator computes each day at most once, so               *)
(*    schedule_at                    : 1                                                   *)
(*    state                          : at most 2                                           *)
(*    next_change / iter_from.take k : at most (days from the instant to 10000-01-01) + c  *)
(*    parse / display / normalize    : no day schedule at all                              *)
EXTENDS Integers, Sequences

Slack == 8
\* call = <<name, outcome, work, span>>; span is the number of days the bound may depend on
ReturnOk(call)  == call[2] = "ok"
ReturnErr(call) == call[2] = "err"
WorkBound(call) == call[3] <= call[4] + Slack
Explained(call) == (ReturnOk(call) \/ ReturnErr(call)) /\ WorkBound(call)
=============================================================================
