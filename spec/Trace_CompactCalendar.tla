------------------------ MODULE Trace_CompactCalendar ------------------------
(* Recorded histories of the real CompactCalendar (any years, -262000..262000), checked  *)
(* step by step against the abstract set semantics. A chain is one calendar's life.      *)
EXTENDS CompactCalendar, Json, IOUtils

Rec == ndJsonDeserialize(IOEnv.TRACE)
VARIABLES l

DateSeq(S) == LET RECURSIVE F(_)
                  F(T) == IF T = {} THEN <<>> ELSE LET m == MinDate(T) IN <<m>> \o F(T \ {m})
              IN F(S)

\* the abstract state after the event
NextSet(e, S) == IF e.op = "insert" THEN S \cup {e.arg} ELSE S

\* does the recorded result agree with the spec in abstract state S ?
StepOk(e, S) ==
  CASE e.op = "insert"      -> e.res = (e.arg \notin S)
    [] e.op = "contains"    -> e.res = (e.arg \in S)
    [] e.op = "first_after" -> e.res = FirstAfter(S, e.arg)
    [] e.op = "count"       -> e.res = Cardinality(S)
    [] e.op = "iter"        -> e.res = DateSeq(S)
    \* serialize then deserialize: equal calendar, written = consumed = 12 + 48 * window
    [] e.op = "roundtrip"   -> /\ e.res.equal
                               /\ e.res.written = e.res.consumed
                               /\ e.res.written = 12 + 48 * (IF S = {} THEN 0 ELSE
                                     LET ys == Years(S)
                                         lo == CHOOSE y \in ys : \A z \in ys : y <= z
                                         hi == CHOOSE y \in ys : \A z \in ys : y >= z
                                     IN hi - lo + 1)
    \* equality with a calendar holding the same dates inserted in another order / a different set
    [] e.op = "eq_reordered" -> e.res = TRUE
    [] e.op = "eq_other"     -> e.res = (S = {x \in {e.arg[i] : i \in DOMAIN e.arg} : TRUE})
    [] OTHER -> FALSE

RECURSIVE ChainFrom(_, _, _)
ChainFrom(c, i, S) == IF i > Len(c) THEN TRUE
                      ELSE StepOk(c[i], S) /\ ChainFrom(c, i + 1, NextSet(c[i], S))

Report(i) == IF ChainFrom(Rec[i].chain, 1, {}) THEN TRUE
             ELSE PrintT(<<"MISMATCH", ToJson([line |-> i, chain |-> Rec[i].chain])>>)

Init == l = 0
Next == l < Len(Rec) /\ l' = l + 1 /\ Report(l + 1)
Spec == Init /\ [][Next]_l
Done == l = Len(Rec) => PrintT(<<"ACCEPTED", ToJson([n |-> Len(Rec)])>>)
=============================================================================
