---------------------------- MODULE Trace_DayEval ----------------------------
(* Implementation -> specification for C01 and C17. One event = one expression (the AST  *)
(* the library evaluated), one context, several days, and for each day the tiling that   *)
(* schedule_at + into_iter returned. On every day whose schedule the semantics pin down  *)
(* (Det) the observed tiling must be the one DayEval.tla defines; comments are checked   *)
(* against the provenance rules of C17.                                                  *)
EXTENDS DayEval, Json, IOUtils

Rec == ndJsonDeserialize(IOEnv.TRACE)
VARIABLES l

CtxOf(e) == [ph |-> SeqToSet(e.ctx.ph), sh |-> SeqToSet(e.ctx.sh), events |-> e.ctx.events]
FromJ(x) == [i \in DOMAIN x |-> Rg(x[i][1], x[i][2], x[i][3], SeqToSet(x[i][4]))]
Shape(til) == [i \in DOMAIN til |-> <<til[i].s, til[i].e, til[i].k>>]
ToJ(til) == [i \in DOMAIN til |-> <<til[i].s, til[i].e, til[i].k>>]

AllRuleComments(expr) == UNION {CSet(expr.rules[i]) : i \in DOMAIN expr.rules}

\* C17: rules whose own period touches or overlaps the tile [s, e]
Contributors(expr, n, ctx, t) ==
  {i \in DOMAIN expr.rules :
     LET v == RuleEval(expr.rules[i], n, ctx).v
     IN \E j \in DOMAIN v : v[j].s <= t.e /\ v[j].e >= t.s}
NoRuleContributes(expr, n, ctx) ==
  \A i \in DOMAIN expr.rules : ~RuleEval(expr.rules[i], n, ctx).some

CommentsOk(expr, n, ctx, obs) ==
  /\ \A i \in DOMAIN obs : obs[i].c \subseteq AllRuleComments(expr)
  /\ (~InRange(n) \/ NoRuleContributes(expr, n, ctx)) => \A i \in DOMAIN obs : obs[i].c = {}
  /\ \A i \in DOMAIN obs :
        (obs[i].k # "closed" /\ Cardinality(Contributors(expr, n, ctx, obs[i])) = 1) =>
           obs[i].c = CSet(expr.rules[CHOOSE r \in Contributors(expr, n, ctx, obs[i]) : TRUE])

\* verdict for day number i of event e: "ok", "undet", "kind", "comment"
DayVerdict(e, i) ==
  LET n   == e.days[i]
      ctx == CtxOf(e)
      obs == FromJ(e.tilings[i])
  IN \* is_constant() answered TRUE for this expression: the day must be one kind, whatever the corner
     IF e.is_constant /\ InRange(n) /\ ~ConstantDay(e.expr, obs) THEN "constant"
     ELSE IF ~Det(e.expr, n, ctx) THEN "undet"
     ELSE IF Shape(obs) # Shape(DayTiling(e.expr, n, ctx)) THEN "kind"
     ELSE IF ~CommentsOk(e.expr, n, ctx, obs) THEN "comment"
     ELSE "ok"

Verdicts(e) == [i \in DOMAIN e.days |-> DayVerdict(e, i)]
Count(v, x) == Cardinality({i \in DOMAIN v : v[i] = x})

Report(k) ==
  LET e == Rec[k]
      v == Verdicts(e)
      bad == {i \in DOMAIN v : v[i] \in {"kind", "comment", "constant"}}
  IN /\ PrintT(<<"STAT", ToJson([id |-> e.id, ok |-> Count(v, "ok"), undet |-> Count(v, "undet"),
                                 kind |-> Count(v, "kind"), comment |-> Count(v, "comment"), constant |-> Count(v, "constant"),
                                 flag |-> e.is_constant, model_flag |-> IsConstant(e.expr),
                                 nontrivial |-> Cardinality({i \in DOMAIN v : v[i] = "ok" /\ Len(e.tilings[i]) > 1}),
                                 commented |-> Cardinality({i \in DOMAIN v : v[i] = "ok" /\
                                                   \E j \in DOMAIN e.tilings[i] : e.tilings[i][j][4] # <<>>})])>>)
     /\ \A i \in bad :
          PrintT(<<"MISMATCH", ToJson([id |-> e.id, what |-> v[i], day |-> e.days[i],
                                       expected |-> ToJ(DayTiling(e.expr, e.days[i], CtxOf(e))),
                                       observed |-> e.tilings[i]])>>)

Init == l = 0
Next == l < Len(Rec) /\ l' = l + 1 /\ Report(l + 1)
Spec == Init /\ [][Next]_l
Done == l = Len(Rec) => PrintT(<<"ACCEPTED", ToJson([n |-> Len(Rec)])>>)
=============================================================================
