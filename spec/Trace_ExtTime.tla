---------------------------- MODULE Trace_ExtTime ----------------------------
(* Implementation -> specification: every recorded call of the real ExtendedTime API   *)
(* must be explained by the corresponding operator of ExtTime. Histories are chains of *)
(* add_minutes / add_hours applied to one value (the counter machine of MC_ExtTime).   *)
EXTENDS ExtTime, Json, IOUtils

Rec == ndJsonDeserialize(IOEnv.TRACE)

VARIABLES l,      \* index of the chain being checked (0 = not started)
          ok      \* TRUE iff all chains so far matched (only used for reporting)

\* one event = one call at its return: {op, t, arg, res}
Explains(e) ==
  CASE e.op = "add_minutes" -> e.res = AddMinutes(e.t, e.arg)
    [] e.op = "add_hours"   -> e.res = AddHours(e.t, e.arg)
    [] e.op = "new"         -> e.res = New(e.t, e.arg)
    [] e.op = "from_mins"   -> e.res = FromMins(e.t)
    [] e.op = "show"        -> e.res = Show(e.t)
    [] e.op = "cmp"         -> e.res = Cmp(e.t, e.arg)
    [] OTHER -> FALSE

\* a chain: the value produced by each step is the receiver of the next one
Produces(e) == e.op \in {"new", "from_mins", "add_minutes", "add_hours"}
After(e)    == IF Produces(e) THEN e.res ELSE e.t
ChainOk(c) == /\ \A i \in 1..Len(c) : Explains(c[i])
              /\ \A i \in 1..(Len(c) - 1) : c[i + 1].t = After(c[i])

Report(i) == IF ChainOk(Rec[i].chain) THEN TRUE
             ELSE PrintT(<<"MISMATCH", ToJson([line |-> i, chain |-> Rec[i].chain])>>)

Init == l = 0 /\ ok = TRUE
Next == /\ l < Len(Rec)
        /\ l' = l + 1
        /\ ok' = (ok /\ ChainOk(Rec[l + 1].chain))
        /\ Report(l + 1)
Spec == Init /\ [][Next]_<<l, ok>>

Done == l = Len(Rec) => PrintT(<<"ACCEPTED", ToJson([n |-> Len(Rec)])>>)
=============================================================================
