SPECIFICATION Spec
INVARIANT Done
CHECK_DEADLOCK FALSE
