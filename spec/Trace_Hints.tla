------------------------------ MODULE Trace_Hints ------------------------------
(* Implementation -> specification for the day-jump hints. One event = (expression, context, day *)
(* n, the hint h the real next_change_hint returned, the library's own tilings of day n and of   *)
(* sampled days the hint lets the iterator skip).                                                *)
(*  verdict  "unsound": h is not later than n, or a sampled day strictly between n and h is not  *)
(*           one whole-day period of the kind day n ends with (Hints.tla, ExprSound, evaluated   *)
(*           on what the library itself computed: differential, as C02 states);                  *)
(*  diagnostic "differs": the expression only uses transcribed selectors, its days are           *)
(*           determined, and ExprHint of Hints.tla is not the hint the code returned. Not a      *)
(*           verdict: a maintainer may return better (or lazier) sound hints.                    *)
EXTENDS Hints, Json, IOUtils, TLC

Rec == ndJsonDeserialize(IOEnv.TRACE)
VARIABLES l

CtxOf(e) == [ph |-> SeqToSet(e.ctx.ph), sh |-> SeqToSet(e.ctx.sh), events |-> e.ctx.events]
HasPanic(e) == "panic" \in DOMAIN e

LastKind(til) == til[Len(til)][3]
Day0(e) == e.runs[1][3]
\* runs = <<first day, last day, tiling>>; the first run starts on day n
BadRuns(e) == {i \in DOMAIN e.runs :
                 LET r == e.runs[i] IN
                 /\ r[2] > e.n                                         \* covers a skipped day
                 /\ r[1] < 2932897                                      \* within the supported range
                 /\ ~(Len(r[3]) = 1 /\ r[3][1][3] = LastKind(Day0(e)))}
\* the iterator never stands on 10000-01-01 or later: hints from there are not used (the code answers DATE_END itself)
Unsound(e) == e.hint # NONE /\ e.n < DateEnd /\ (e.hint <= e.n \/ (e.n >= DateStart /\ BadRuns(e) # {}))

Comparable(e) == /\ ExprTranscribed(e.expr)
                 /\ \A i \in DOMAIN e.expr.rules : DayDet(e.expr.rules[i], e.n) /\ DayDet(e.expr.rules[i], e.n - 1)
                 /\ YearOf(e.n) >= 0
Verdict(e) == IF HasPanic(e) THEN "panic"
              ELSE IF Unsound(e) THEN "unsound"
              ELSE IF ~Comparable(e) THEN "ok"
              ELSE IF ExprHint(e.expr, e.n, CtxOf(e)) = e.hint THEN "exact" ELSE "differs"

Report(k) ==
  LET e == Rec[k]
      v == Verdict(e)
  IN /\ PrintT(<<"STAT", ToJson([id |-> e.id, v |-> v,
                                 skipped |-> IF HasPanic(e) \/ e.hint = NONE THEN 0 ELSE e.hint - e.n - 1])>>)
     /\ (v = "unsound") => PrintT(<<"MISMATCH", ToJson([id |-> e.id, what |-> "unsound", n |-> e.n, hint |-> e.hint,
                                                         bad |-> [i \in BadRuns(e) |-> e.runs[i]]])>>)
     /\ (v = "differs") => PrintT(<<"DIFFERS", ToJson([id |-> e.id, n |-> e.n, hint |-> e.hint,
                                                        model |-> ExprHint(e.expr, e.n, CtxOf(e))])>>)

Init == l = 0
Next == l < Len(Rec) /\ l' = l + 1 /\ Report(l + 1)
Spec == Init /\ [][Next]_l
Done == l = Len(Rec) => PrintT(<<"ACCEPTED", ToJson([n |-> Len(Rec)])>>)
=============================================================================
