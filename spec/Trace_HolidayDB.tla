---------------------------- MODULE Trace_HolidayDB ----------------------------
(* C10: Embedded[c][k] = Source[c][k] for every country c and kind k, decided on an       *)
(* exhaustive extraction through the real decode path: the full iteration listing, count, *)
(* a contains() scan of every day 1990-01-01..2085-12-31, the first_after chain, and the  *)
(* days on which the PH / SH selector is open when the country's calendars are attached.  *)
(* Source is the JSON rendering (format conversion only) of opening-hours/data/*.txt.     *)
EXTENDS Integers, Sequences, FiniteSets, Json, IOUtils, TLC

Rec    == ndJsonDeserialize(IOEnv.TRACE)
Source == JsonDeserialize(IOEnv.SOURCE)     \* [public |-> [AD |-> <<days>>, ...], school |-> [...]]
VARIABLES l

SeqToSet(q) == {q[i] : i \in DOMAIN q}
Increasing(q) == \A i \in 1..(Len(q) - 1) : q[i] < q[i + 1]
SourceSet(country, kind) ==
  LET tbl == IF kind = "public" THEN Source.public ELSE Source.school
  IN IF country \in DOMAIN tbl THEN SeqToSet(tbl[country]) ELSE {}

CalendarVerdict(e) ==
  LET src == SourceSet(e.country, e.kind)
      lst == SeqToSet(e.listing)
  IN IF ~e.roundtrip THEN "code_roundtrip"
     ELSE IF lst # src THEN "listing"
     ELSE IF ~Increasing(e.listing) \/ e.count # Cardinality(src) THEN "order_or_count"
     ELSE IF SeqToSet(e.scan) # {d \in src : d >= e.scan_lo /\ d <= e.scan_hi} THEN "contains"
     ELSE IF e.chain # [i \in 1..Len(e.chain) |-> e.chain[i]] \/ ~Increasing(e.chain)
             \/ SeqToSet(e.chain) # {d \in src : d > e.chain_from} THEN "first_after"
     ELSE IF SeqToSet(e.selected) # src THEN "selector"
     ELSE "ok"

\* the country table: ALL, iso_code and FromStr are mutually inverse; nothing else parses; every
\* country of the source data is a supported country
TableVerdict(e) ==
  LET all == SeqToSet(e.all)
      acc == SeqToSet(e.accepted)
  IN IF Cardinality(all) # Len(e.all) THEN "duplicate_code"
     ELSE IF {a[1] : a \in acc} # all \/ \E a \in acc : a[1] # a[2] THEN "parse_table"
     ELSE IF e.odd_accepted # <<>> THEN "parse_lenient"
     ELSE IF ~((DOMAIN Source.public) \subseteq all /\ (DOMAIN Source.school) \subseteq all) THEN "source_country_unsupported"
     ELSE IF ~e.names_unique THEN "names"
     ELSE "ok"

Verdict(e) == IF e.what = "calendar" THEN CalendarVerdict(e) ELSE TableVerdict(e)
Report(k) ==
  LET e == Rec[k]
      v == Verdict(e)
  IN /\ PrintT(<<"STAT", ToJson([id |-> e.id, v |-> v,
                                 dates |-> IF e.what = "calendar" THEN Len(e.listing) ELSE 0,
                                 probes |-> IF e.what = "calendar" THEN e.probes + (e.scan_hi - e.scan_lo + 1) ELSE e.tried])>>)
     /\ (v = "ok" \/ PrintT(<<"MISMATCH", ToJson([id |-> e.id, what |-> v,
                                                  country |-> IF e.what = "calendar" THEN e.country ELSE "-",
                                                  kind |-> IF e.what = "calendar" THEN e.kind ELSE "-"])>>))

Init == l = 0
Next == l < Len(Rec) /\ l' = l + 1 /\ Report(l + 1)
Spec == Init /\ [][Next]_l
Done == l = Len(Rec) => PrintT(<<"ACCEPTED", ToJson([n |-> Len(Rec)])>>)
=============================================================================
