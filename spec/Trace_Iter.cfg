SPECIFICATION Spec
CONSTANTS
  DStart <- RealStart
  DEnd <- RealEnd
INVARIANT Done
CHECK_DEADLOCK FALSE
