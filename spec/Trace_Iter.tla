------------------------------ MODULE Trace_Iter ------------------------------
(* Implementation -> specification for the interval stream (C02), state / next_change    *)
(* (C03), the supported date range (C08), the interval-size bound (C16) and the comments *)
(* of the first interval (C17). Each event carries the run-length encoded day tilings    *)
(* that schedule_at returned for EVERY day it spans: the declarative stream of           *)
(* Iterator.tla is rebuilt from them and compared with what the real iterator emitted,   *)
(* so a day skipped by a wrong hint is examined however long the skip is.                *)
EXTENDS Iterator, Json, IOUtils

RealStart == -25567          \* 1900-01-01
RealEnd   == 2932897         \* 10000-01-01

Rec == ndJsonDeserialize(IOEnv.TRACE)
VARIABLES l

SeqToSet(q) == {q[i] : i \in DOMAIN q}
FromJ(x) == [i \in DOMAIN x |-> [s |-> x[i][1], e |-> x[i][2], k |-> x[i][3], c |-> SeqToSet(x[i][4])]]
Max2(a, b) == IF a > b THEN a ELSE b
Min2(a, b) == IF a < b THEN a ELSE b

\* elementary pieces of one day with tiling til
DayPieces(til, d) == [i \in DOMAIN til |-> [a |-> <<d, 60 * til[i].s>>,
                                            b |-> IF til[i].e = 1440 THEN <<d + 1, 0>> ELSE <<d, 60 * til[i].e>>,
                                            k |-> til[i].k]]
RECURSIVE RepeatDays(_, _, _)
RepeatDays(til, a, b) == IF a > b THEN <<>> ELSE DayPieces(til, a) \o RepeatDays(til, a + 1, b)

\* pieces of one run <<first day, last day, tiling>> restricted to days lo..hi
RunPieces(run, lo, hi) ==
  LET a   == Max2(run[1], lo)
      b   == Min2(run[2], hi)
      til == FromJ(run[3])
  IN IF a > b THEN <<>>
     ELSE IF Len(til) = 1 THEN <<[a |-> <<a, 0>>, b |-> <<b + 1, 0>>, k |-> til[1].k]>>
     ELSE RepeatDays(til, a, b)

RECURSIVE RunsPieces(_, _, _, _)
RunsPieces(runs, i, lo, hi) == IF i > Len(runs) THEN <<>> ELSE RunPieces(runs[i], lo, hi) \o RunsPieces(runs, i + 1, lo, hi)

\* days long before 1900 are not recorded one by one: they are closed by definition (C08; the
\* harness samples the schedule of the far day itself, see FarSampleOk)
FarPrefix(runs, f) ==
  IF runs # <<>> /\ f[1] < runs[1][1] /\ runs[1][1] <= RealStart
  THEN <<[a |-> <<f[1], 0>>, b |-> <<runs[1][1], 0>>, k |-> "closed"]>> ELSE <<>>

StreamR(runs, from, to) ==
  LET f == IMin(from, EndInstant)
      t == IMin(to, EndInstant)
  IN IF ~ILt(f, t) THEN <<>> ELSE Merge(ClipAll(FarPrefix(runs, f) \o RunsPieces(runs, 1, f[1], t[1]), f, t))
FarSampleOk(e) == "far_sample" \notin DOMAIN e \/ e.far_sample = <<<<0, 1440, "closed", <<>>>>>>

\* the recorded runs are contiguous and cover days lo..hi
Covers(runs, lo, hi) ==
  \/ lo > hi
  \/ /\ runs # <<>> /\ runs[1][1] <= lo /\ runs[Len(runs)][2] >= hi
     /\ \A i \in 1..(Len(runs) - 1) : runs[i + 1][1] = runs[i][2] + 1
LastDayOf(t) == IF t[2] = 0 THEN t[1] - 1 ELSE t[1]

\* C08: outside the supported range every day is one closed period without comments
ClosedOutside(runs) ==
  \A i \in DOMAIN runs :
     (runs[i][1] < RealStart \/ runs[i][2] >= RealEnd) =>
        runs[i][3] = <<<<0, 1440, "closed", <<>>>>>>

RunAt(runs, d) == runs[CHOOSE i \in DOMAIN runs : runs[i][1] <= d /\ d <= runs[i][2]]
TileAtR(runs, t) == LET til == FromJ(RunAt(runs, t[1])[3]) IN TileAt(til, t[2] \div 60)

\* Hint contract of machine M3 (MC_Iterator.SoundHint) on the jumps the real iterator made (hook ae52c2c): every day
\* skipped by a jump <<a, b>> is one full-day period of the kind day a ends with. Diagnostic only: it tells whether a
\* stream mismatch comes from an unsound "next possible change" hint and which jump it was.
DayCovered(runs, d) == \E i \in DOMAIN runs : runs[i][1] <= d /\ d <= runs[i][2]
LastKindR(runs, d) == LET til == FromJ(RunAt(runs, d)[3]) IN til[Len(til)].k
SoundJump(runs, j) ==
  \/ ~DayCovered(runs, j[1])
  \/ \A i \in DOMAIN runs :
        LET lo  == Max2(runs[i][1], j[1] + 1)
            hi  == Min2(runs[i][2], j[2] - 1)
            til == FromJ(runs[i][3])
        IN lo > hi \/ (Len(til) = 1 /\ til[1].k = LastKindR(runs, j[1]))
UnsoundJumps(e) == IF "jumps" \in DOMAIN e /\ "sched" \in DOMAIN e
                   THEN SelectSeq(e.jumps, LAMBDA j : ~SoundJump(e.sched, j)) ELSE <<>>

Shape(ivs) == [i \in DOMAIN ivs |-> <<ivs[i][1], ivs[i][2], ivs[i][3]>>]
ShapeS(s)  == [i \in DOMAIN s |-> <<s[i].a, s[i].b, s[i].k>>]

\* durations as <<days, seconds>> with 0 <= seconds < 86400
DiffPair(a, b) == IF a[2] >= b[2] THEN <<a[1] - b[1], a[2] - b[2]>> ELSE <<a[1] - b[1] - 1, a[2] - b[2] + 86400>>
PLe(p, q) == p[1] < q[1] \/ (p[1] = q[1] /\ p[2] <= q[2])

-----------------------------------------------------------------------------
RangeVerdict(e) ==
  LET f == IMin(e.from, EndInstant)
      t == IMin(e.to, EndInstant)
      exp == StreamR(e.sched, e.from, e.to)
  IN IF ILt(f, t) /\ ~Covers(e.sched, Max2(f[1], RealStart - 2), LastDayOf(t)) THEN "harness"
     ELSE IF ~ClosedOutside(e.sched) \/ ~FarSampleOk(e) THEN "range"
     ELSE IF Shape(e.intervals) # ShapeS(exp) THEN "stream"
     \* no interval starts before the requested start or ends after min(requested end, END)
     ELSE IF \E i \in DOMAIN e.intervals : ILt(e.intervals[i][1], f) \/ ILt(t, e.intervals[i][2]) THEN "range"
     \* C17: the first interval carries the comments of the schedule period containing the start
     ELSE IF e.intervals # <<>> /\ f[1] >= e.sched[1][1] /\ SeqToSet(e.intervals[1][4]) # TileAtR(e.sched, f).c THEN "comment"
     ELSE "ok"

PointVerdict(e) ==
  LET t     == e.t
      runs  == e.sched
      lastD == runs[Len(runs)][2]
      s     == StreamR(runs, t, <<lastD + 1, 0>>)
      inRange == ILt(t, EndInstant)
      expState == IF inRange /\ t[1] >= runs[1][1] THEN TileAtR(runs, t).k ELSE "closed"
      nc    == e.next_change
  IN IF ~ClosedOutside(runs) \/ ~FarSampleOk(e) THEN "range"
     ELSE IF e.state # expState THEN "state"
     ELSE IF e.flags # <<e.state = "open", e.state = "closed", e.state = "unknown">> THEN "flags"
     ELSE IF nc # <<>> /\ (~ILt(t, nc) \/ ~ILt(nc, EndInstant)) THEN "next_change_range"
     ELSE IF ~inRange THEN (IF nc = <<>> THEN "ok" ELSE "next_change")
     \* a change exists within the recorded days: it must be the answer
     ELSE IF Len(s) >= 2 /\ ILt(s[1].b, EndInstant) THEN (IF nc = s[1].b THEN "ok" ELSE "next_change")
     \* no change within the recorded days
     ELSE IF nc # <<>> /\ ILe(nc, <<lastD, 0>>) THEN "next_change"        \* reports a change that does not exist
     ELSE IF nc = <<>> THEN (IF e.complete THEN "ok" ELSE "unverified")
     ELSE "unverified"

BoundedVerdict(e) ==
  LET t == e.t
      B == e.bound
      exact == e.next_change
      got == e.next_change_b
      \* C08 under a bounded context: the window [t, to_b) asked from the bounded evaluator; its intervals are non-empty, increasing,
      \* contiguous, start at t and never leave [t, min(to_b, END)) - whatever the approximation replaced
      w  == e.range_b
      hi == IMin(e.to_b, EndInstant)
      windowOk == \/ "range_b" \notin DOMAIN e
                  \/ /\ \A i \in DOMAIN w : ILt(w[i][1], w[i][2]) /\ ILe(t, w[i][1]) /\ ILe(w[i][2], hi)
                     /\ \A i \in 1..(Len(w) - 1) : w[i][2] = w[i + 1][1]
                     /\ (w # <<>> => w[1][1] = t)
                     /\ (w = <<>> => ~ILt(t, hi))
  IN IF ~windowOk THEN "bound_range"
     ELSE IF e.state_b # e.state THEN "bound_state"
     ELSE IF got # <<>> /\ got # exact THEN "bound_wrong"                     \* neither exact nor none
     ELSE IF exact = <<>> THEN "ok"
     ELSE IF PLe(DiffPair(exact, t), <<B[1] - 1, B[2]>>) /\ got # exact THEN "bound_not_exact"
     ELSE IF ~PLe(DiffPair(exact, t), B) /\ got # <<>> THEN "bound_not_none"
     ELSE "ok"

Verdict(e) ==
  IF "panic" \in DOMAIN e THEN "panic"
  ELSE CASE e.what = "range" -> RangeVerdict(e)
         [] e.what = "point" -> PointVerdict(e)
         [] e.what = "bounded" -> LET p == PointVerdict(e) IN IF p \in {"ok", "unverified"} THEN BoundedVerdict(e) ELSE p
         [] OTHER -> "harness"

Report(k) ==
  LET e == Rec[k]
      v == Verdict(e)
  IN /\ PrintT(<<"STAT", ToJson([id |-> e.id, v |-> v,
                                 n |-> IF "intervals" \in DOMAIN e THEN Len(e.intervals) ELSE 0,
                                 runs |-> IF "sched" \in DOMAIN e THEN Len(e.sched) ELSE 0,
                                 jumps |-> IF "jumps" \in DOMAIN e THEN Len(e.jumps) ELSE 0,
                                 unsound |-> Len(UnsoundJumps(e))])>>)
     /\ (v \in {"ok", "unverified", "panic"} \/
         PrintT(<<"MISMATCH", ToJson([id |-> e.id, what |-> v,
                    expected |-> IF e.what = "range" THEN ShapeS(StreamR(e.sched, e.from, e.to)) ELSE <<>>,
                    unsound_jumps |-> UnsoundJumps(e)])>>))

Init == l = 0
Next == l < Len(Rec) /\ l' = l + 1 /\ Report(l + 1)
Spec == Init /\ [][Next]_l
Done == l = Len(Rec) => PrintT(<<"ACCEPTED", ToJson([n |-> Len(Rec)])>>)
=============================================================================
