SPECIFICATION Spec
CONSTANTS
  Step = 60
INVARIANT Done
CHECK_DEADLOCK FALSE
