----------------------------- MODULE Trace_Localize -----------------------------
(* C09 on real zone data. Each event: a zone of chrono-tz with its offset table around a  *)
(* transition (extracted from chrono-tz by the harness: the table IS the zone for this    *)
(* check), an instant given in some other zone, and the answers of the localized API and  *)
(* of the naive API at the wall-clock time.                                                *)
(*  (0) the table explains the wall-clock time the library computed      (binding)         *)
(*  (1) state through the zone = state without location at the wall-clock time            *)
(*  (2) next_change / interval bounds = Datetime(zone, naive result): later instant on a   *)
(*      fold, first valid stepped minute in a gap; carrying the context zone               *)
(*  (3) interval bounds never go backwards in absolute time                                *)
EXTENDS Localize, Json, IOUtils, TLC

Rec == ndJsonDeserialize(IOEnv.TRACE)
VARIABLES l
None == -1

Separated(tab) == \A k \in 2..(Len(tab) - 1) :
                     LET jump(j) == IF tab[j].off > tab[j - 1].off THEN tab[j].off - tab[j - 1].off ELSE tab[j - 1].off - tab[j].off
                     IN tab[k + 1].from - tab[k].from > jump(k) + jump(k + 1)

Verdict(e) ==
  IF "panic" \in DOMAIN e THEN "panic"
  ELSE LET tab == e.table IN
  IF ~WellFormed(tab) THEN "harness"
  \* a zone with two clock changes closer to each other than their jumps (Asia/Aqtau in the 1990s): the monotonicity theorem of
  \* MC_Localize does not cover it; its events are counted, not judged
  ELSE IF ~Separated(tab) THEN "unseparated"
  ELSE IF Naive(tab, e.t_utc) # e.naive_t THEN "table"
  ELSE IF e.state_tz # e.state_naive THEN "state"
  ELSE IF e.next_tz # (IF e.next_naive = None THEN None ELSE Datetime(tab, e.next_naive)) THEN "next_change"
  ELSE IF ~e.next_tz_zone_ok THEN "zone"
  ELSE IF Len(e.ivs_tz) # Len(e.ivs_naive) THEN "intervals"
  ELSE IF \E j \in DOMAIN e.ivs_tz :
            \/ e.ivs_tz[j][3] # e.ivs_naive[j][3]
            \/ e.ivs_tz[j][1] # Datetime(tab, e.ivs_naive[j][1])
            \/ e.ivs_tz[j][2] # Datetime(tab, e.ivs_naive[j][2]) THEN "intervals"
  ELSE IF \E j \in DOMAIN e.ivs_tz : e.ivs_tz[j][1] > e.ivs_tz[j][2] THEN "backwards"
  ELSE IF \E j \in 1..(Len(e.ivs_tz) - 1) : e.ivs_tz[j][2] > e.ivs_tz[j + 1][1] THEN "backwards"
  ELSE "ok"

\* was the instant inside or next to a gap / fold ? (coverage statistics)
NearTransition(e) == \E k \in 2..Len(e.table) : e.t_utc >= e.table[k].from - 7200 /\ e.t_utc <= e.table[k].from + 7200
InFoldOrGap(e) == "naive_t" \in DOMAIN e /\ (Ambiguous(e.table, e.naive_t) \/
                    \E j \in DOMAIN e.ivs_naive : ~Exists(e.table, e.ivs_naive[j][2]) \/ Ambiguous(e.table, e.ivs_naive[j][2]))

Report(k) ==
  LET e == Rec[k]
      v == Verdict(e)
  IN /\ PrintT(<<"STAT", ToJson([id |-> e.id, v |-> v, near |-> NearTransition(e),
                                 special |-> IF v = "panic" THEN FALSE ELSE InFoldOrGap(e)])>>)
     /\ (v \in {"ok", "panic", "unseparated"} \/ PrintT(<<"MISMATCH", ToJson([id |-> e.id, what |-> v])>>))

Init == l = 0
Next == l < Len(Rec) /\ l' = l + 1 /\ Report(l + 1)
Spec == Init /\ [][Next]_l
Done == l = Len(Rec) => PrintT(<<"ACCEPTED", ToJson([n |-> Len(Rec)])>>)
=============================================================================
