---------------------------- MODULE Trace_Normalize ----------------------------
(* C07: the normal form has the same schedule as the original on every day of the sample  *)
(* years (whole years chosen between the year cut points of both expressions, so that     *)
(* every month x ISO week x weekday cell of every year segment is visited) and on the     *)
(* probe days of both. C13: normalising the normal form changes nothing, the result does  *)
(* not depend on clones / threads / the evaluator wrapper, and the printed normal form    *)
(* parses back to itself. Differential on the library's own results.                      *)
EXTENDS Integers, Sequences, Json, IOUtils, TLC

Rec == ndJsonDeserialize(IOEnv.TRACE)
VARIABLES l

MeaningOk(e) == \A i \in DOMAIN e.windows : e.runs1[i] = e.runs2[i]
Idempotent(e) == e.n2 = e.n1
\* (that the reparsed normal form evaluates identically is C06's check, run on normal forms there)
Reparses(e) == "rules" \in DOMAIN e.reparse

Failing(e) ==
  IF "panic" \in DOMAIN e THEN {}
  ELSE (IF MeaningOk(e) THEN {} ELSE {"meaning"})
       \cup (IF Idempotent(e) THEN {} ELSE {"idempotence"})
       \cup (IF e.deterministic THEN {} ELSE {"determinism"})
       \cup (IF Reparses(e) THEN {} ELSE {"reparse"})
Verdict(e) == IF "panic" \in DOMAIN e THEN "panic" ELSE IF Failing(e) = {} THEN "ok" ELSE CHOOSE x \in Failing(e) : TRUE

FirstDiff(e) == LET i == CHOOSE i \in DOMAIN e.windows : e.runs1[i] # e.runs2[i]
                IN [window |-> e.windows[i], original |-> e.runs1[i], normalized |-> e.runs2[i]]

Report(k) ==
  LET e == Rec[k]
      v == Verdict(e)
  IN /\ PrintT(<<"STAT", ToJson([id |-> e.id, v |-> v,
                                 changed |-> IF "n1" \in DOMAIN e THEN e.n1 # e.expr ELSE FALSE,
                                 windows |-> IF "windows" \in DOMAIN e THEN Len(e.windows) ELSE 0])>>)
     \* every failing clause is reported (C07 takes "meaning", C13 the others)
     /\ \A w \in Failing(e) :
          PrintT(<<"MISMATCH", ToJson([id |-> e.id, what |-> w, diff |-> IF w = "meaning" THEN FirstDiff(e) ELSE <<>>])>>)

Init == l = 0
Next == l < Len(Rec) /\ l' = l + 1 /\ Report(l + 1)
Spec == Init /\ [][Next]_l
Done == l = Len(Rec) => PrintT(<<"ACCEPTED", ToJson([n |-> Len(Rec)])>>)
=============================================================================
