------------------------------ MODULE Trace_Print ------------------------------
(* C06: the string form of an expression (or of its normal form) must parse, and the      *)
(* reparsed expression must evaluate identically: same tiling on every probe day (the     *)
(* days straddle every selector bound of BOTH expressions), same comments up to the       *)
(* joining of a rule's comments into one string. The verdict is differential on the       *)
(* library's own evaluation; DayEval.tla additionally evaluates both ASTs (diagnostic:    *)
(* tells whether the printer changed the meaning or the evaluator is inconsistent).       *)
EXTENDS DayEval, Json, IOUtils

Rec == ndJsonDeserialize(IOEnv.TRACE)
VARIABLES l

CtxOf(e) == [ph |-> SeqToSet(e.ctx.ph), sh |-> SeqToSet(e.ctx.sh), events |-> e.ctx.events]
RECURSIVE JoinC(_)
JoinC(q) == IF q = <<>> THEN "" ELSE IF Len(q) = 1 THEN q[1] ELSE q[1] \o ", " \o JoinC(Tail(q))
\* shape of a tiling with its comments joined (the harness logs comment vectors sorted)
ShapeC(til) == [i \in DOMAIN til |-> <<til[i][1], til[i][2], til[i][3], JoinC(til[i][4])>>]
ShapeK(til) == [i \in DOMAIN til |-> <<til[i][1], til[i][2], til[i][3]>>]
FromJ(x) == [i \in DOMAIN x |-> Rg(x[i][1], x[i][2], x[i][3], SeqToSet(x[i][4]))]
ShapeT(til) == [i \in DOMAIN til |-> <<til[i].s, til[i].e, til[i].k>>]

Verdict(e) ==
  IF e.reparse # "ok" THEN "reparse"
  ELSE IF \E i \in DOMAIN e.days : ShapeK(e.tilings1[i]) # ShapeK(e.tilings2[i]) THEN "meaning"
  ELSE IF \E i \in DOMAIN e.days : ShapeC(e.tilings1[i]) # ShapeC(e.tilings2[i]) THEN "comments"
  ELSE "ok"

\* diagnostic: do the two ASTs mean the same on the probe days according to DayEval.tla ?
SpecSame(e) ==
  e.reparse = "ok" =>
    \A i \in DOMAIN e.days :
       (Det(e.expr, e.days[i], CtxOf(e)) /\ Det(e.expr2, e.days[i], CtxOf(e))) =>
          ShapeT(DayTiling(e.expr, e.days[i], CtxOf(e))) = ShapeT(DayTiling(e.expr2, e.days[i], CtxOf(e)))

Report(k) ==
  LET e == Rec[k]
      v == Verdict(e)
  IN /\ PrintT(<<"STAT", ToJson([id |-> e.id, v |-> v, days |-> IF e.reparse = "ok" THEN Len(e.days) ELSE 0,
                                 same_ast |-> IF e.reparse = "ok" THEN e.same_ast ELSE FALSE,
                                 spec_same |-> SpecSame(e)])>>)
     /\ (v = "ok" \/ PrintT(<<"MISMATCH", ToJson([id |-> e.id, what |-> v])>>))

Init == l = 0
Next == l < Len(Rec) /\ l' = l + 1 /\ Report(l + 1)
Spec == Init /\ [][Next]_l
Done == l = Len(Rec) => PrintT(<<"ACCEPTED", ToJson([n |-> Len(Rec)])>>)
=============================================================================
