------------------------------ MODULE Trace_Purity ------------------------------
(* C18: a recorded multi-threaded history (one fresh process per skeleton) is accepted    *)
(* iff every response equals F[call], the response of a sequential single-threaded fresh  *)
(* process (order-insensitive, because calls are pure), every thread performed its        *)
(* program in order, and repeated calls agree.                                            *)
EXTENDS Integers, Sequences, FiniteSets, Json, IOUtils, TLC

Rec == ndJsonDeserialize(IOEnv.TRACE)     \* one line per skeleton: [skeleton, events, reference]
VARIABLES l

Answer(ref, call) == ref[CHOOSE i \in DOMAIN ref : ref[i].call = call].digest

HistoryOk(h) ==
  /\ \A i \in DOMAIN h.events : h.events[i].digest = Answer(h.reference, h.events[i].call)
  \* calls that compare clones under other contexts / interleaved expressions with isolated fresh computations
  /\ \A i \in DOMAIN h.events : h.events[i].consistent
  \* every thread logged exactly its program, in order
  /\ \A t \in DOMAIN h.skeleton :
        LET mine == SelectSeq(h.events, LAMBDA e : e.thread = t - 1)
        IN /\ Len(mine) = Len(h.skeleton[t])
           /\ \A k \in DOMAIN mine : mine[k].seq = k - 1 /\ mine[k].call = h.skeleton[t][k]

FirstBad(h) == LET i == CHOOSE i \in DOMAIN h.events : h.events[i].digest # Answer(h.reference, h.events[i].call) \/ ~h.events[i].consistent
               IN [event |-> h.events[i], expected |-> Answer(h.reference, h.events[i].call)]
Report(k) ==
  LET h == Rec[k] IN
  /\ PrintT(<<"STAT", ToJson([id |-> h.id, ok |-> HistoryOk(h), events |-> Len(h.events), threads |-> Len(h.skeleton)])>>)
  /\ (HistoryOk(h) \/ PrintT(<<"MISMATCH", ToJson([id |-> h.id, skeleton |-> h.skeleton,
          bad |-> IF \E i \in DOMAIN h.events : h.events[i].digest # Answer(h.reference, h.events[i].call) \/ ~h.events[i].consistent THEN FirstBad(h)
                  ELSE [event |-> "program order", expected |-> ""]])>>))

Init == l = 0
Next == l < Len(Rec) /\ l' = l + 1 /\ Report(l + 1)
Spec == Init /\ [][Next]_l
Done == l = Len(Rec) => PrintT(<<"ACCEPTED", ToJson([n |-> Len(Rec)])>>)
=============================================================================
