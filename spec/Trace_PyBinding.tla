---------------------------- MODULE Trace_PyBinding ----------------------------
(* C12: what the Python extension returned (py) against what the Rust core returns for   *)
(* the context PyBinding.tla names (rs), for every constructor argument combination       *)
(* enumerated by Gen_PyBinding and naive / aware datetimes in several zones.              *)
EXTENDS PyBinding, Json, IOUtils, TLC

Rec == ndJsonDeserialize(IOEnv.TRACE)
VARIABLES l

Args(e) == [tz |-> e.tz, country_valid |-> e.country_valid, coords_valid |-> e.coords_valid,
            auto_country |-> e.auto_country, auto_timezone |-> e.auto_timezone, expr_valid |-> e.expr_valid]

\* zone carried by every datetime a call returned
Zones(call) ==
  LET nc == {call.py.next_change.tz}
      iv(q) == UNION {{q[i][1].tz, q[i][2].tz} : i \in DOMAIN q}
  IN (nc \cup iv(call.py.intervals) \cup iv(call.py.intervals_bounded)) \ {"none"}     \* "none" = Python None (10000-01-01)

CallVerdict(e, call) ==
  IF "exc" \in DOMAIN call.py THEN "py_exception"
  ELSE IF call.py.state # call.rs.state \/ call.py.flags # call.rs.flags THEN "state"
  ELSE IF call.py.next_change # call.rs.next_change THEN "next_change"
  ELSE IF call.py.intervals # call.rs.intervals \/ call.py.intervals_bounded # call.rs.intervals_bounded THEN "intervals"
  ELSE IF Zones(call) \ {ResultZone(Args(e), e.ctx_zone, call.dt.tz)} # {} THEN "zone"
  \* Session.tla seen from Python: the object normalize() returned answers like the core's normal form under the SAME context;
  \* an iterator consumed between other calls yields the elements of the stream, in order
  ELSE IF call.py.norm # call.rs.norm THEN "normalized_object"
  ELSE IF call.py.interleaved # call.rs.interleaved THEN "interleaved_iterator"
  \* a window whose bounds are given differently (aware start + naive end, naive start + aware end)
  ELSE IF call.py.intervals_mixed # call.rs.intervals_mixed THEN "intervals_mixed_bounds"
  ELSE "ok"

Verdict(e) ==
  LET a == Args(e) IN
  \* the recorded table row is the one the specification defines
  IF e.outcome # Outcome(a) \/ e.holidays # Holidays(a) \/ e.locale # Locale(a) THEN "harness"
  ELSE IF e.py_constructed = "PanicException" THEN "panic"
  ELSE IF e.py_constructed # e.outcome THEN "outcome"
  ELSE IF e.py_validate # e.expr_valid \/ e.rs_parse_ok # e.expr_valid THEN "validate"
  ELSE IF e.outcome # "ok" THEN (IF e.error_class_ok THEN "ok" ELSE "error_class")
  ELSE IF "rs_panic" \in DOMAIN e THEN "rs_panic"
  ELSE IF ~e.meta_ok THEN "str_repr_normalize"
  ELSE IF \E i \in DOMAIN e.calls : CallVerdict(e, e.calls[i]) # "ok"
       THEN CallVerdict(e, e.calls[CHOOSE i \in DOMAIN e.calls : CallVerdict(e, e.calls[i]) # "ok"])
  ELSE "ok"

Report(k) ==
  LET e == Rec[k]
      v == Verdict(e)
  IN /\ PrintT(<<"STAT", ToJson([id |-> e.id, v |-> v, calls |-> IF "calls" \in DOMAIN e THEN Len(e.calls) ELSE 0,
                                 outcome |-> e.outcome])>>)
     /\ (v = "ok" \/ PrintT(<<"MISMATCH", ToJson([id |-> e.id, what |-> v])>>))

Init == l = 0
Next == l < Len(Rec) /\ l' = l + 1 /\ Report(l + 1)
Spec == Init /\ [][Next]_l
Done == l = Len(Rec) => PrintT(<<"ACCEPTED", ToJson([n |-> Len(Rec)])>>)
=============================================================================
