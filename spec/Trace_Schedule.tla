---------------------------- MODULE Trace_Schedule ----------------------------
(* Recorded histories of the real Schedule type, judged by the laws of C14 (not by the   *)
(* transcription): every result must be a valid representation, cover/paint what the law *)
(* says relative to its recorded operands, and iterate as a proper tiling. Operands must *)
(* be values recorded earlier in the same chain (or the empty schedule).                 *)
EXTENDS Schedule, Json, IOUtils

Rec == ndJsonDeserialize(IOEnv.TRACE)
VARIABLES l

FromJ(x) == [i \in DOMAIN x |-> Rg(x[i][1], x[i][2], x[i][3], SeqRange(x[i][4]))]

EventOk(e) ==
  LET r   == FromJ(e.r)
      til == FromJ(e.til)
  IN /\ CASE e.op = "from_ranges" -> FromRangesLaw(e.ranges, e.k, SeqRange(e.c), r)
          [] e.op = "add"         -> AdditionLaw(FromJ(e.a), FromJ(e.b), r)
          [] OTHER -> FALSE
     /\ IsTilingOf(til, r)
     /\ AllComments(til) \subseteq AllComments(r)
     /\ e.sorted_comments

\* how often the real result is exactly what the transcribed algorithm computes (diagnostic)
Exact(e) == LET r == FromJ(e.r) IN
            CASE e.op = "from_ranges" -> r = FromRanges(e.ranges, e.k, SeqRange(e.c))
              [] e.op = "add" -> r = Addition(FromJ(e.a), FromJ(e.b)) /\ FromJ(e.til) = Tiling(r)
              [] OTHER -> FALSE

ChainOk(c) ==
  /\ \A i \in DOMAIN c : EventOk(c[i])
  /\ \A i \in DOMAIN c : c[i].op = "add" =>
        /\ c[i].a = <<>> \/ \E j \in 1..(i - 1) : c[j].r = c[i].a
        /\ c[i].b = <<>> \/ \E j \in 1..(i - 1) : c[j].r = c[i].b

Report(i) == /\ IF ChainOk(Rec[i].chain) THEN TRUE
                ELSE PrintT(<<"MISMATCH", ToJson([line |-> i, chain |-> Rec[i].chain])>>)
             /\ IF \A j \in DOMAIN Rec[i].chain : Exact(Rec[i].chain[j]) THEN TRUE
                ELSE PrintT(<<"INEXACT", ToJson([line |-> i])>>)

Init == l = 0
Next == l < Len(Rec) /\ l' = l + 1 /\ Report(l + 1)
Spec == Init /\ [][Next]_l
Done == l = Len(Rec) => PrintT(<<"ACCEPTED", ToJson([n |-> Len(Rec)])>>)
=============================================================================
