--------------------------- MODULE Trace_SortedVec ---------------------------
(* Recorded histories of the real UniqueSortedVec: a chain starts with `from` and goes  *)
(* on with unions / queries on the accumulator; each step must be the spec's result.    *)
EXTENDS SortedVec, Json, IOUtils

Rec == ndJsonDeserialize(IOEnv.TRACE)

VARIABLES l
\* {op, acc (receiver before the call), arg, res}
Explains(e) ==
  CASE e.op = "from"     -> e.res = FromVec(e.arg)
    [] e.op = "union"    -> IsSortedUnique(e.acc) /\ e.res = Union(e.acc, FromVec(e.arg))
                               /\ e.res = UnionSet(e.acc, FromVec(e.arg))
    [] e.op = "union_rev" -> e.res = Union(FromVec(e.arg), e.acc)
    [] e.op = "contains" -> e.res = Member(e.acc, e.arg)
    [] e.op = "first_following" -> e.res = FirstFollowing(e.acc, e.arg)
    [] OTHER -> FALSE

Produces(e) == e.op \in {"from", "union", "union_rev"}
After(e)    == IF Produces(e) THEN e.res ELSE e.acc
ChainOk(c) == /\ \A i \in 1..Len(c) : Explains(c[i])
              /\ \A i \in 1..(Len(c) - 1) : c[i + 1].acc = After(c[i])

Report(i) == IF ChainOk(Rec[i].chain) THEN TRUE
             ELSE PrintT(<<"MISMATCH", ToJson([line |-> i, chain |-> Rec[i].chain])>>)

Init == l = 0
Next == l < Len(Rec) /\ l' = l + 1 /\ Report(l + 1)
Spec == Init /\ [][Next]_l
Done == l = Len(Rec) => PrintT(<<"ACCEPTED", ToJson([n |-> Len(Rec)])>>)
=============================================================================
