------------------------------- MODULE Trace_Sun -------------------------------
EXTENDS Sun, Json, IOUtils, TLC

Rec == ndJsonDeserialize(IOEnv.TRACE)
VARIABLES l

GridVerdict(e) ==
  IF "panic" \in DOMAIN e THEN "panic"
  \* absolute instants are ordered
  ELSE IF ~(e.utc[1] < e.utc[2] /\ e.utc[2] < e.utc[3] /\ e.utc[3] < e.utc[4]) THEN "utc_order"
  \* the local time used by the evaluator is the absolute instant shifted by the zone offset at that instant
  ELSE IF \E i \in 1..4 : e.local[i] # (e.utc[i] + e.offs[i]) % Day THEN "local_vs_utc"
  ELSE IF ~Ordered(e.local, e.lon, e.off) THEN "order"
  ELSE IF e.state_noon \notin {"open", "gap"} THEN "noon_not_open"
  ELSE IF e.state_midnight[1] \notin {"closed", "gap"} \/ e.state_midnight[2] \notin {"closed", "gap"} THEN "midnight_not_closed"
  ELSE "ok"

Verdict(e) ==
  CASE e.what = "default" -> IF e.local = Defaults /\ e.tz_local = Defaults THEN "ok" ELSE "defaults"
    [] e.what = "grid" -> GridVerdict(e)
    [] e.what = "accept" ->
         IF e.accepted # Accepts(e.lat_class, e.lat, e.lon_class, e.lon) THEN "acceptance"
         ELSE IF e.accepted /\ ("panic" \in DOMAIN e \/ "zone" \notin DOMAIN e) THEN "accepted_but_fails"
         ELSE "ok"
    [] OTHER -> "harness"

Report(k) ==
  LET e == Rec[k]
      v == Verdict(e)
  IN /\ PrintT(<<"STAT", ToJson([id |-> e.id, v |-> v, what |-> e.what])>>)
     /\ (v = "ok" \/ PrintT(<<"MISMATCH", ToJson([id |-> e.id, what |-> v])>>))

Init == l = 0
Next == l < Len(Rec) /\ l' = l + 1 /\ Report(l + 1)
Spec == Init /\ [][Next]_l
Done == l = Len(Rec) => PrintT(<<"ACCEPTED", ToJson([n |-> Len(Rec)])>>)
=============================================================================
