----------------------------- MODULE Trace_Totality -----------------------------
EXTENDS Totality, Json, IOUtils, TLC, FiniteSets

Rec == ndJsonDeserialize(IOEnv.TRACE)
VARIABLES l

Bad(e) == {i \in DOMAIN e.calls : ~Explained(e.calls[i])}
Report(k) ==
  LET e == Rec[k] IN
  /\ PrintT(<<"STAT", ToJson([id |-> e.id, calls |-> Len(e.calls), bad |-> Cardinality(Bad(e)),
                              parsed |-> e.calls[1][2] = "ok",
                              maxwork |-> IF Len(e.calls) = 0 THEN 0 ELSE
                                 LET w == {e.calls[i][3] : i \in DOMAIN e.calls} IN CHOOSE x \in w : \A y \in w : y <= x])>>)
  /\ (Bad(e) = {} \/ PrintT(<<"MISMATCH", ToJson([id |-> e.id, input |-> e.input,
                                 calls |-> [i \in 1..(IF Cardinality(Bad(e)) < 4 THEN Cardinality(Bad(e)) ELSE 4) |->
                                              e.calls[CHOOSE j \in Bad(e) : Cardinality({x \in Bad(e) : x < j}) = i - 1]]])>>))

Init == l = 0
Next == l < Len(Rec) /\ l' = l + 1 /\ Report(l + 1)
Spec == Init /\ [][Next]_l
Done == l = Len(Rec) => PrintT(<<"ACCEPTED", ToJson([n |-> Len(Rec)])>>)
=============================================================================
