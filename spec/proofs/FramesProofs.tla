---------------------------- MODULE FramesProofs ----------------------------
(* TLAPS: the covering theorem of Frames.tla for EVERY framed dimension (any bounds Lo <= Hi),   *)
(* not only the four instances MC_Frames checks: the half-open pieces a wrapping inclusive range *)
(* is split into cover exactly the values of the wrapping-contains reading.                       *)
EXTENDS FramesCore, TLAPS

THEOREM CoverAll ==
  ASSUME NEW Lo \in Int, NEW Hi \in Int, NEW a \in Lo..Hi, NEW b \in Lo..Hi, NEW x \in Lo..Hi
  PROVE  InPieces(Pieces(a, b, Lo, Hi), x) <=> WrapContains(a, b, x)
<1>1. CASE a <= b
  <2>1. Pieces(a, b, Lo, Hi) = <<Rng(a, b + 1)>>
    BY <1>1 DEF Pieces, Split, Strict, Rng
  <2>2. DOMAIN <<Rng(a, b + 1)>> = {1}
    OBVIOUS
  <2>3. InPieces(<<Rng(a, b + 1)>>, x) <=> (a <= x /\ x < b + 1)
    BY <2>2 DEF InPieces, Rng
  <2>. QED BY <1>1, <2>1, <2>3 DEF WrapContains
<1>2. CASE a > b
  <2>1. Pieces(a, b, Lo, Hi) = <<Rng(Lo, b + 1), Rng(a, Hi + 1)>>
    BY <1>2 DEF Pieces, Split, Strict, Rng
  <2>2. DOMAIN <<Rng(Lo, b + 1), Rng(a, Hi + 1)>> = {1, 2}
    OBVIOUS
  <2>3. InPieces(<<Rng(Lo, b + 1), Rng(a, Hi + 1)>>, x) <=> ((Lo <= x /\ x < b + 1) \/ (a <= x /\ x < Hi + 1))
    BY <2>2 DEF InPieces, Rng
  <2>. QED BY <1>2, <2>1, <2>3 DEF WrapContains
<1>. QED BY <1>1, <1>2

(* the pieces are proper (non-empty, within the frame) and increasing, for every dimension size *)
THEOREM ProperAll ==
  ASSUME NEW Lo \in Int, NEW Hi \in Int, NEW a \in Lo..Hi, NEW b \in Lo..Hi
  PROVE  LET ps == Pieces(a, b, Lo, Hi)
         IN /\ \A i \in DOMAIN ps : Lo <= ps[i].s /\ ps[i].s < ps[i].e /\ ps[i].e <= Hi + 1
            /\ \A i \in 1..(Len(ps) - 1) : ps[i].e <= ps[i + 1].s
<1>1. CASE a <= b
  <2>1. Pieces(a, b, Lo, Hi) = <<Rng(a, b + 1)>>
    BY <1>1 DEF Pieces, Split, Strict, Rng
  <2>2. DOMAIN <<Rng(a, b + 1)>> = {1} /\ Len(<<Rng(a, b + 1)>>) = 1
    OBVIOUS
  <2>. QED BY <1>1, <2>1, <2>2 DEF Rng
<1>2. CASE a > b
  <2>1. Pieces(a, b, Lo, Hi) = <<Rng(Lo, b + 1), Rng(a, Hi + 1)>>
    BY <1>2 DEF Pieces, Split, Strict, Rng
  <2>2. DOMAIN <<Rng(Lo, b + 1), Rng(a, Hi + 1)>> = {1, 2} /\ Len(<<Rng(Lo, b + 1), Rng(a, Hi + 1)>>) = 2
    OBVIOUS
  <2>. QED BY <1>2, <2>1, <2>2 DEF Rng
<1>. QED BY <1>1, <1>2
=============================================================================
