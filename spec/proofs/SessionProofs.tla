---------------------------- MODULE SessionProofs ----------------------------
(* TLAPS: the two facts that make Arc sharing unobservable in Session.tla, for EVERY number of   *)
(* value slots, iterators, expressions, contexts and allocations (MC_Session checks them for     *)
(* 3 slots / 3 allocations): as long as the deviation NormalizeInPlace is off, no step writes a  *)
(* cell that exists (HeapStep). (That live slots never dangle is left to TLC: MC_Session.)     *)
EXTENDS Session, TLAPS

HeapType == heap \in Seq([expr : Exprs, norm : BOOLEAN])

THEOREM HeapStep ==
  ASSUME InPlace = FALSE, HeapType, [Next]_vars
  PROVE  \A a \in DOMAIN heap : heap'[a] = heap[a]
<1>1. CASE UNCHANGED vars
  BY <1>1 DEF vars
<1>2. CASE Next
  <2>1. heap' = heap \/ \E c : heap' = Append(heap, c)
    BY <1>2, InPlace = FALSE DEF Next, Parse, CloneTo, WithContext, Normalize, NormalizeInPlace, Drop, Eval, EqObs, IterNew, IterNext, IterDrop
  <2>2. ASSUME NEW c, heap' = Append(heap, c) PROVE \A a \in DOMAIN heap : heap'[a] = heap[a]
    BY <2>2 DEF HeapType
  <2>. QED BY <2>1, <2>2
<1>. QED BY <1>1, <1>2

THEOREM TypeInit == Init => TypeOK
  BY DEF Init, TypeOK, Dead, DeadIter

=============================================================================
